(* Proofs/IntSeqProofs.v — lemmas about Model/IntSeq.v *)
From Coq Require Import List ZArith Bool Lia ZifyBool.
From Cylc Require Import Base.Util Model.IntSeq.
Import ListNotations.
Local Open Scope Z_scope.

(* ================================================================== *)
(* 1. arithmetic of grids  a + i*k                                     *)
(* ================================================================== *)
Lemma grid_iff a k g : k <> 0 -> ((g - a) mod k = 0 <-> exists i, g = a + i * k).
Proof.
  intros Hk. rewrite Z.mod_divide by exact Hk. split.
  - intros [i Hi]. exists i. lia.
  - intros [i Hi]. exists i. lia.
Qed.

Lemma grid_next a k p : 0 < k ->
  let i := (p - a) mod k in
  (p + k - i - a) mod k = 0 /\ p < p + k - i /\
  forall g, (g - a) mod k = 0 -> p < g -> p + k - i <= g.
Proof.
  intros Hk i. subst i.
  pose proof (Z.mod_pos_bound (p - a) k Hk) as Hb.
  pose proof (Z.div_mod (p - a) k ltac:(lia)) as Hd.
  split; [|split; [lia|]].
  - replace (p + k - (p - a) mod k - a) with ((1 + (p - a) / k) * k) by lia.
    apply Z.mod_mul. lia.
  - intros g Hg Hlt. apply grid_iff in Hg; [|lia]. destruct Hg as [j ->].
    assert (j > (p - a) / k) by nia. nia.
Qed.

Lemma grid_prev a k p : 0 < k ->
  let i := (p - a) mod k in
  let prev := if i =? 0 then p - k else p - i in
  (prev - a) mod k = 0 /\ prev < p /\
  forall g, (g - a) mod k = 0 -> g < p -> g <= prev.
Proof.
  intros Hk i prev. subst i prev.
  pose proof (Z.mod_pos_bound (p - a) k Hk) as Hb.
  pose proof (Z.div_mod (p - a) k ltac:(lia)) as Hd.
  destruct ((p - a) mod k =? 0) eqn:E.
  - assert (E' : (p - a) mod k = 0) by lia. split; [|split; [lia|]].
    + replace (p - k - a) with (((p - a) / k - 1) * k) by lia. apply Z.mod_mul. lia.
    + intros g Hg Hlt. apply grid_iff in Hg; [|lia]. destruct Hg as [j ->].
      assert (j < (p - a) / k) by nia. nia.
  - assert (E' : (p - a) mod k <> 0) by lia. split; [|split; [lia|]].
    + replace (p - (p - a) mod k - a) with (((p - a) / k) * k) by lia. apply Z.mod_mul. lia.
    + intros g Hg Hlt. apply grid_iff in Hg; [|lia]. destruct Hg as [j ->].
      assert (j <= (p - a) / k) by nia. nia.
Qed.

(* a grid point above a - k is at least a; one below a + k is at most a *)
Lemma grid_ge a k g : 0 < k -> (g - a) mod k = 0 -> a - k < g -> a <= g.
Proof.
  intros Hk Hg Hlt. apply grid_iff in Hg; [|lia]. destruct Hg as [j ->].
  assert (j > -1) by nia. nia.
Qed.

Lemma grid_le a k g : 0 < k -> (g - a) mod k = 0 -> g < a + k -> g <= a.
Proof.
  intros Hk Hg Hlt. apply grid_iff in Hg; [|lia]. destruct Hg as [j ->].
  assert (j < 1) by nia. nia.
Qed.

Lemma grid_shift a k g : 0 < k -> (g - a) mod k = 0 -> (g + k - a) mod k = 0.
Proof.
  intros Hk Hg. apply grid_iff in Hg; [|lia]. destruct Hg as [j ->].
  apply grid_iff; [lia|]. exists (j + 1). lia.
Qed.

Lemma grid_trans a b k g : 0 < k -> (b - a) mod k = 0 -> ((g - a) mod k = 0 <-> (g - b) mod k = 0).
Proof.
  intros Hk Hb. apply grid_iff in Hb; [|lia]. destruct Hb as [j ->].
  rewrite !grid_iff by lia. split; intros [i Hi].
  - exists (i - j). lia.
  - exists (i + j). lia.
Qed.

(* ================================================================== *)
(* 2. specification vocabulary                                         *)
(* ================================================================== *)
(* the set of points an exclusion-free state stands for: the progression
   from p_start with step i_step (a single point when the step is None/P0),
   within [p_start, p_stop] *)
Definition core_member (c : core) (p : Z) : Prop :=
  c_start c <= p /\ (forall e, c_stop c = Some e -> p <= e) /\
  match truthy_step (c_step c) with
  | Some k => exists i, p = c_start c + i * k
  | None => p = c_start c
  end.

Definition excl_member (x : list Z * list core) (p : Z) : Prop :=
  In p (fst x) \/ exists c, In c (snd x) /\ core_member c p.

(* ... minus the exclusion points and the points of the exclusion sequences *)
Definition seq_member (s : seq) (p : Z) : Prop :=
  core_member (s_core s) p /\ forall x, s_excl s = Some x -> ~ excl_member x p.

(* what each query must return with respect to a set M *)
Definition is_least_gt (M : Z -> Prop) (p : Z) (r : option Z) : Prop :=
  match r with
  | Some m => M m /\ p < m /\ forall m', M m' -> p < m' -> m <= m'
  | None => forall m', M m' -> m' <= p
  end.
Definition is_least_ge (M : Z -> Prop) (p : Z) (r : option Z) : Prop :=
  match r with
  | Some m => M m /\ p <= m /\ forall m', M m' -> p <= m' -> m <= m'
  | None => forall m', M m' -> m' < p
  end.
Definition is_greatest_lt (M : Z -> Prop) (p : Z) (r : option Z) : Prop :=
  match r with
  | Some m => M m /\ m < p /\ forall m', M m' -> m' < p -> m' <= m
  | None => forall m', M m' -> p <= m'
  end.
Definition is_min (M : Z -> Prop) (r : option Z) : Prop :=
  match r with
  | Some m => M m /\ forall m', M m' -> m <= m'
  | None => forall m', ~ M m'
  end.
Definition is_max (M : Z -> Prop) (r : option Z) : Prop :=
  match r with
  | Some m => M m /\ forall m', M m' -> m' <= m
  | None => forall m', ~ M m'
  end.

(* state shapes *)
Definition stepped (s : seq) (k : Z) : Prop :=
  truthy_step (c_step (s_core s)) = Some k /\ 0 < k.
Definition oneoff (s : seq) : Prop := truthy_step (c_step (s_core s)) = None.
Definition stop_on_grid (s : seq) (k : Z) : Prop :=
  forall e, c_stop (s_core s) = Some e -> (e - c_start (s_core s)) mod k = 0.

(* ================================================================== *)
(* 3. membership                                                       *)
(* ================================================================== *)
Lemma truthy_step_some st k : truthy_step st = Some k -> st = Some k /\ k <> 0.
Proof.
  unfold truthy_step. destruct st as [k'|]; [|discriminate].
  destruct (k' =? 0) eqn:E; [discriminate|]. intros [= <-]. split; [reflexivity|lia].
Qed.

Lemma valid_core_iff c p : valid_core c p = true <-> core_member c p.
Proof.
  unfold valid_core, core_member, on_seq_core.
  destruct (truthy_step (c_step c)) as [k|] eqn:Et.
  - apply truthy_step_some in Et. destruct Et as [_ Hk].
    rewrite <- (grid_iff (c_start c) k p Hk).
    destruct (c_stop c) as [e|].
    + split.
      * intros H. repeat split; try lia. intros e' [= <-]. lia.
      * intros (H1 & H2 & H3). specialize (H2 e eq_refl). lia.
    + split.
      * intros H. repeat split; try lia. intros e' [=].
      * intros (H1 & H2 & H3). lia.
  - destruct (c_stop c) as [e|].
    + split.
      * intros H. repeat split; try lia. intros e' [= <-]. lia.
      * intros (H1 & H2 & H3). specialize (H2 e eq_refl). lia.
    + split.
      * intros H. repeat split; try lia. intros e' [=].
      * intros (H1 & H2 & H3). lia.
Qed.

Lemma mem_Z_In p l : mem Z.eqb p l = true <-> In p l.
Proof. apply mem_In. intros x y. apply Z.eqb_eq. Qed.

Lemma excl_has_iff x p : excl_has x p = true <-> excl_member x p.
Proof.
  unfold excl_has, excl_member. rewrite orb_true_iff, mem_Z_In, existsb_exists.
  split; (intros [H|[c [Hc Hv]]]; [left; exact H|right; exists c; split; [exact Hc|]]);
    apply valid_core_iff; exact Hv.
Qed.

Lemma excluded_false_iff s p :
  excluded s p = false <-> forall x, s_excl s = Some x -> ~ excl_member x p.
Proof.
  unfold excluded. destruct (s_excl s) as [x|].
  - split.
    + intros H x' [= <-] Hm. apply excl_has_iff in Hm. congruence.
    + intros H. destruct (excl_has x p) eqn:E; [|reflexivity].
      exfalso. apply (H x eq_refl). apply excl_has_iff. exact E.
  - split; [intros _ x [=]|reflexivity].
Qed.

Lemma is_valid_unfold s p :
  is_valid s p = negb (excluded s p) && valid_core (s_core s) p.
Proof.
  unfold is_valid, is_on_sequence, valid_core.
  destruct (excluded s p); cbn; [reflexivity|].
  destruct (on_seq_core (s_core s) p); reflexivity.
Qed.

Lemma is_valid_iff s p : is_valid s p = true <-> seq_member s p.
Proof.
  rewrite is_valid_unfold, andb_true_iff, negb_true_iff, excluded_false_iff, valid_core_iff.
  unfold seq_member. tauto.
Qed.

(* boolean characterisation used by the query proofs *)
Lemma member_stepped s k p :
  truthy_step (c_step (s_core s)) = Some k ->
  (seq_member s p <->
   c_start (s_core s) <= p /\ (forall e, c_stop (s_core s) = Some e -> p <= e) /\
   (p - c_start (s_core s)) mod k = 0 /\ excluded s p = false).
Proof.
  intros Hk. unfold seq_member, core_member. rewrite Hk.
  apply truthy_step_some in Hk. destruct Hk as [_ Hk].
  rewrite <- (grid_iff _ k p Hk), excluded_false_iff. tauto.
Qed.

Lemma member_oneoff s p :
  truthy_step (c_step (s_core s)) = None ->
  (seq_member s p <->
   p = c_start (s_core s) /\ (forall e, c_stop (s_core s) = Some e -> p <= e) /\
   excluded s p = false).
Proof.
  intros Hk. unfold seq_member, core_member. rewrite Hk, excluded_false_iff.
  split; [intros [(H1 & H2 & H3) H4]|intros (H1 & H2 & H3)]; repeat split; auto; lia.
Qed.

Lemma in_bounds_some s p r :
  in_bounds s p = Some r ->
  r = p /\ c_start (s_core s) <= p /\ forall e, c_stop (s_core s) = Some e -> p <= e.
Proof.
  unfold in_bounds, in_bounds_core. destruct (c_stop (s_core s)) as [e|].
  - destruct ((c_start (s_core s) <=? p) && (p <=? e)) eqn:E; [|discriminate].
    intros [= <-]. repeat split; try lia. intros e' [= <-]. lia.
  - destruct ((c_start (s_core s) <=? p) && true) eqn:E; [|discriminate].
    intros [= <-]. repeat split; try lia. intros e' [=].
Qed.

Lemma in_bounds_none s p :
  in_bounds s p = None ->
  p < c_start (s_core s) \/ exists e, c_stop (s_core s) = Some e /\ e < p.
Proof.
  unfold in_bounds, in_bounds_core. destruct (c_stop (s_core s)) as [e|].
  - destruct ((c_start (s_core s) <=? p) && (p <=? e)) eqn:E; [discriminate|].
    intros _. destruct (Z.lt_ge_cases p (c_start (s_core s))); [left; assumption|].
    right. exists e. split; [reflexivity|lia].
  - destruct ((c_start (s_core s) <=? p) && true) eqn:E; [discriminate|].
    intros _. left. lia.
Qed.

(* ================================================================== *)
(* 4. get_next_point / get_next_point_on_sequence                      *)
(* ================================================================== *)
(* one step "go to the grid point nxt > p; skip it if excluded" is shared by
   both functions *)
Lemma least_gt_skip s k p nxt r :
  truthy_step (c_step (s_core s)) = Some k -> 0 < k ->
  (nxt - c_start (s_core s)) mod k = 0 -> p < nxt ->
  (forall g, (g - c_start (s_core s)) mod k = 0 -> p < g -> nxt <= g) ->
  excluded s nxt = true ->
  is_least_gt (seq_member s) nxt r -> is_least_gt (seq_member s) p r.
Proof.
  intros Hk Hpos Hgrid Hlt Hleast Hex Hr.
  assert (Hnot : ~ seq_member s nxt).
  { rewrite (member_stepped s k nxt Hk). intros (_ & _ & _ & E). congruence. }
  destruct r as [m|]; cbn in *.
  - destruct Hr as (Hm & Hgt & Hmin). split; [exact Hm|split; [lia|]].
    intros m' Hm' Hpm'. apply Hmin; [exact Hm'|].
    pose proof Hm' as Hm''. rewrite (member_stepped s k m' Hk) in Hm''.
    destruct Hm'' as (_ & _ & Hg & _). specialize (Hleast m' Hg Hpm').
    destruct (Z.eq_dec m' nxt) as [->|]; [contradiction|lia].
  - intros m' Hm'. destruct (Z.le_gt_cases m' p) as [|Hgt]; [assumption|].
    pose proof Hm' as Hm''. rewrite (member_stepped s k m' Hk) in Hm''.
    destruct Hm'' as (_ & _ & Hg & _). specialize (Hleast m' Hg ltac:(lia)).
    specialize (Hr m' Hm'). assert (m' = nxt) by lia. subst. contradiction.
Qed.

Lemma least_gt_hit s k p nxt :
  truthy_step (c_step (s_core s)) = Some k -> 0 < k ->
  (nxt - c_start (s_core s)) mod k = 0 -> p < nxt ->
  (forall g, (g - c_start (s_core s)) mod k = 0 -> p < g -> nxt <= g) ->
  c_start (s_core s) <= nxt -> (forall e, c_stop (s_core s) = Some e -> nxt <= e) ->
  excluded s nxt = false ->
  is_least_gt (seq_member s) p (Some nxt).
Proof.
  intros Hk Hpos Hgrid Hlt Hleast Hlo Hhi Hex. cbn. split; [|split; [exact Hlt|]].
  - apply (member_stepped s k nxt Hk). auto.
  - intros m' Hm' Hpm'. rewrite (member_stepped s k m' Hk) in Hm'.
    destruct Hm' as (_ & _ & Hg & _). auto.
Qed.

Lemma least_gt_none s k p nxt :
  truthy_step (c_step (s_core s)) = Some k -> 0 < k ->
  (forall g, (g - c_start (s_core s)) mod k = 0 -> p < g -> nxt <= g) ->
  (exists e, c_stop (s_core s) = Some e /\ e < nxt) ->
  is_least_gt (seq_member s) p None.
Proof.
  intros Hk Hpos Hleast [e [He Hlt]] m' Hm'. cbn.
  rewrite (member_stepped s k m' Hk) in Hm'. destruct Hm' as (_ & Hhi & Hg & _).
  specialize (Hhi e He). destruct (Z.le_gt_cases m' p) as [|Hgt]; [assumption|].
  specialize (Hleast m' Hg ltac:(lia)). lia.
Qed.

Lemma next_stepped fuel s k p r :
  stepped s k -> c_start (s_core s) - k <= p ->
  get_next_point fuel s p = Ok r -> is_least_gt (seq_member s) p r.
Proof.
  intros [Hk Hpos]. revert p r. induction fuel as [|fl IH]; intros p r Hp; cbn [get_next_point]; [discriminate|].
  rewrite Hk.
  destruct (grid_next (c_start (s_core s)) k p Hpos) as (Hg & Hlt & Hleast).
  set (nxt := p + k - (p - c_start (s_core s)) mod k) in *.
  destruct (in_bounds s nxt) as [r0|] eqn:Eb.
  - apply in_bounds_some in Eb. destruct Eb as (-> & Hlo & Hhi).
    destruct (excluded s nxt) eqn:Ex.
    + intros H. eapply least_gt_skip; eauto. apply IH; [lia|exact H].
    + intros [= <-]. eapply least_gt_hit; eauto.
  - intros [= <-]. apply in_bounds_none in Eb. destruct Eb as [Hlo|Hhi].
    + exfalso. assert (c_start (s_core s) <= nxt); [|lia].
      eapply grid_ge; eauto. lia.
    + eapply least_gt_none; eauto.
Qed.

Lemma next_oneoff fuel s p r :
  oneoff s -> (p < c_start (s_core s) -> seq_member s (c_start (s_core s))) ->
  get_next_point fuel s p = Ok r -> is_least_gt (seq_member s) p r.
Proof.
  intros Ho Hst. destruct fuel as [|fl]; cbn [get_next_point]; [discriminate|].
  unfold oneoff in Ho. rewrite Ho.
  destruct (p <? c_start (s_core s)) eqn:E; intros [= <-]; cbn.
  - split; [apply Hst; lia|split; [lia|]].
    intros m' Hm' _. apply (member_oneoff s m' Ho) in Hm'. lia.
  - intros m' Hm'. apply (member_oneoff s m' Ho) in Hm'. lia.
Qed.

Lemma nos_stepped fuel s k p r :
  stepped s k -> (p - c_start (s_core s)) mod k = 0 -> c_start (s_core s) - k <= p ->
  get_next_point_on_sequence fuel s p = Ok r -> is_least_gt (seq_member s) p r.
Proof.
  intros [Hk Hpos]. revert p r.
  induction fuel as [|fl IH]; intros p r Hgp Hp; cbn [get_next_point_on_sequence]; [discriminate|].
  rewrite Hk.
  assert (Hg : (p + k - c_start (s_core s)) mod k = 0) by (apply grid_shift; auto).
  assert (Hleast : forall g, (g - c_start (s_core s)) mod k = 0 -> p < g -> p + k <= g).
  { intros g Hgg Hlt. destruct (grid_next (c_start (s_core s)) k p Hpos) as (_ & _ & Hl).
    specialize (Hl g Hgg Hlt). rewrite Hgp in Hl. lia. }
  destruct (in_bounds s (p + k)) as [r0|] eqn:Eb.
  - apply in_bounds_some in Eb. destruct Eb as (-> & Hlo & Hhi).
    destruct (excluded s (p + k)) eqn:Ex.
    + intros H. eapply (least_gt_skip s k p (p + k)); eauto; [lia|]. apply IH; [exact Hg|lia|exact H].
    + intros [= <-]. eapply least_gt_hit; eauto. lia.
  - intros [= <-]. apply in_bounds_none in Eb. destruct Eb as [Hlo|Hhi].
    + exfalso. lia.
    + eapply least_gt_none; eauto.
Qed.

Lemma nos_oneoff fuel s p : oneoff s -> fuel <> O -> get_next_point_on_sequence fuel s p = Ok None.
Proof.
  intros Ho Hf. destruct fuel as [|fl]; [congruence|]. cbn. unfold oneoff in Ho. rewrite Ho. reflexivity.
Qed.

(* fuel: with a stop point, (stop - p) + 1 units always suffice; neither
   function ever raises *)
Lemma next_no_error fuel s p e : get_next_point fuel s p = Err e -> e = EFuel.
Proof.
  revert p. induction fuel as [|fl IH]; intros p; cbn [get_next_point]; [intros [= <-]; reflexivity|].
  destruct (truthy_step (c_step (s_core s))) as [k|].
  - destruct (in_bounds s _) as [r0|]; [|discriminate].
    destruct (excluded s r0); [apply IH|discriminate].
  - destruct (p <? c_start (s_core s)); discriminate.
Qed.

Lemma nos_no_error fuel s p e : get_next_point_on_sequence fuel s p = Err e -> e = EFuel.
Proof.
  revert p. induction fuel as [|fl IH]; intros p; cbn [get_next_point_on_sequence]; [intros [= <-]; reflexivity|].
  destruct (truthy_step (c_step (s_core s))) as [k|]; [|discriminate].
  destruct (in_bounds s _) as [r0|]; [|discriminate].
  destruct (excluded s r0); [apply IH|discriminate].
Qed.

Lemma next_fuel fuel s k p e :
  stepped s k -> c_stop (s_core s) = Some e -> Z.max 0 (e - p) < Z.of_nat fuel ->
  get_next_point fuel s p <> Err EFuel.
Proof.
  intros [Hk Hpos] He. revert p. induction fuel as [|fl IH]; intros p Hf; cbn [get_next_point]; [lia|].
  rewrite Hk. destruct (grid_next (c_start (s_core s)) k p Hpos) as (_ & Hlt & _).
  set (nxt := p + k - (p - c_start (s_core s)) mod k) in *.
  destruct (in_bounds s nxt) as [r0|] eqn:Eb; [|discriminate].
  apply in_bounds_some in Eb. destruct Eb as (-> & _ & Hhi). specialize (Hhi e He).
  destruct (excluded s nxt); [|discriminate]. apply IH. lia.
Qed.

(* ================================================================== *)
(* 5. get_prev_point                                                   *)
(* ================================================================== *)
Lemma excluded_opt_some s r : excluded_opt s (Some r) = Ok (excluded s r).
Proof. unfold excluded_opt, excluded. destruct (s_excl s); reflexivity. Qed.

Lemma excluded_opt_none_ok s b : excluded_opt s None = Ok b -> b = false.
Proof.
  unfold excluded_opt, excl_has_opt. destruct (s_excl s) as [x|]; [|intros [= <-]; reflexivity].
  destruct (existsb _ (snd x)); [discriminate|intros [= <-]; reflexivity].
Qed.

Lemma greatest_lt_skip s k p prev r :
  truthy_step (c_step (s_core s)) = Some k -> 0 < k ->
  prev < p ->
  (forall g, (g - c_start (s_core s)) mod k = 0 -> g < p -> g <= prev) ->
  excluded s prev = true ->
  is_greatest_lt (seq_member s) prev r -> is_greatest_lt (seq_member s) p r.
Proof.
  intros Hk Hpos Hlt Hgreat Hex Hr.
  assert (Hnot : ~ seq_member s prev).
  { rewrite (member_stepped s k prev Hk). intros (_ & _ & _ & E). congruence. }
  destruct r as [m|]; cbn in *.
  - destruct Hr as (Hm & Hgt & Hmax). split; [exact Hm|split; [lia|]].
    intros m' Hm' Hpm'. apply Hmax; [exact Hm'|].
    pose proof Hm' as Hm''. rewrite (member_stepped s k m' Hk) in Hm''.
    destruct Hm'' as (_ & _ & Hg & _). specialize (Hgreat m' Hg Hpm').
    destruct (Z.eq_dec m' prev) as [->|]; [contradiction|lia].
  - intros m' Hm'. destruct (Z.le_gt_cases p m') as [|Hgt]; [assumption|].
    pose proof Hm' as Hm''. rewrite (member_stepped s k m' Hk) in Hm''.
    destruct Hm'' as (_ & _ & Hg & _). specialize (Hgreat m' Hg ltac:(lia)).
    specialize (Hr m' Hm'). assert (m' = prev) by lia. subst. contradiction.
Qed.

Lemma prev_stepped fuel s k p r :
  stepped s k -> stop_on_grid s k ->
  (forall e, c_stop (s_core s) = Some e -> p <= e + k) ->
  get_prev_point fuel s p = Ok r -> is_greatest_lt (seq_member s) p r.
Proof.
  intros [Hk Hpos] Hsg. revert p r.
  induction fuel as [|fl IH]; intros p r Hp; cbn [get_prev_point]; [discriminate|].
  rewrite Hk.
  destruct (grid_prev (c_start (s_core s)) k p Hpos) as (Hg & Hlt & Hgreat).
  set (prev := if (p - c_start (s_core s)) mod k =? 0 then p - k
               else p - (p - c_start (s_core s)) mod k) in *.
  destruct (in_bounds s prev) as [r0|] eqn:Eb.
  - apply in_bounds_some in Eb. destruct Eb as (-> & Hlo & Hhi).
    rewrite excluded_opt_some. cbn [bind].
    destruct (excluded s prev) eqn:Ex.
    + intros H. eapply greatest_lt_skip; eauto. apply IH; [|exact H].
      intros e He. specialize (Hhi e He). lia.
    + intros [= <-]. cbn. split; [|split; [exact Hlt|]].
      * apply (member_stepped s k prev Hk). auto.
      * intros m' Hm' Hpm'. rewrite (member_stepped s k m' Hk) in Hm'.
        destruct Hm' as (_ & _ & Hgm & _). auto.
  - destruct (excluded_opt s None) as [b|er] eqn:Eo; cbn [bind]; [|discriminate].
    apply excluded_opt_none_ok in Eo. subst b. intros [= <-]. cbn.
    intros m' Hm'. rewrite (member_stepped s k m' Hk) in Hm'.
    destruct Hm' as (Hlo' & Hhi' & Hgm & _).
    destruct (Z.le_gt_cases p m') as [|Hgt]; [assumption|exfalso].
    specialize (Hgreat m' Hgm ltac:(lia)).
    apply in_bounds_none in Eb. destruct Eb as [Hlo|[e [He Hhi]]]; [lia|].
    specialize (Hp e He). specialize (Hsg e He).
    assert ((prev - e) mod k = 0) by (apply (grid_trans (c_start (s_core s)) e k prev Hpos Hsg); exact Hg).
    assert (prev <= e) by (eapply grid_le; eauto; lia). lia.
Qed.

Lemma prev_oneoff fuel s p : oneoff s -> fuel <> O -> get_prev_point fuel s p = Ok None.
Proof.
  intros Ho Hf. destruct fuel as [|fl]; [congruence|]. cbn. unfold oneoff in Ho. rewrite Ho. reflexivity.
Qed.

(* get_prev_point can only raise TypeError, and only through a stepped
   exclusion sequence *)
Definition no_stepped_excl (s : seq) : Prop :=
  forall x c, s_excl s = Some x -> In c (snd x) -> truthy_step (c_step c) = None.

Lemma excluded_opt_total s o : no_stepped_excl s -> exists b, excluded_opt s o = Ok b.
Proof.
  intros Hn. destruct o as [r|]; [rewrite excluded_opt_some; eauto|].
  unfold excluded_opt, excl_has_opt. destruct (s_excl s) as [x|] eqn:Ex; [|eauto].
  destruct (existsb _ (snd x)) eqn:E; [|eauto].
  apply existsb_exists in E. destruct E as [c [Hc Ht]].
  rewrite (Hn x c Ex Hc) in Ht. discriminate.
Qed.

Lemma excluded_opt_err s o e : excluded_opt s o = Err e -> e = EType.
Proof.
  destruct o as [r|]; [rewrite excluded_opt_some; discriminate|].
  unfold excluded_opt, excl_has_opt. destruct (s_excl s) as [x|]; [|discriminate].
  destruct (existsb _ (snd x)); [intros [= <-]; reflexivity|discriminate].
Qed.

Lemma prev_errors fuel s p e : get_prev_point fuel s p = Err e -> e = EFuel \/ e = EType.
Proof.
  revert p. induction fuel as [|fl IH]; intros p; cbn [get_prev_point]; [intros [= <-]; auto|].
  destruct (truthy_step (c_step (s_core s))) as [k|]; [|discriminate].
  destruct (excluded_opt s _) as [b|er] eqn:Eo; cbn [bind].
  - destruct b; [|discriminate]. destruct (in_bounds s _); [apply IH|discriminate].
  - intros [= <-]. right. eapply excluded_opt_err; eauto.
Qed.

Lemma prev_no_type_error fuel s p : no_stepped_excl s -> get_prev_point fuel s p <> Err EType.
Proof.
  intros Hn. revert p. induction fuel as [|fl IH]; intros p; cbn [get_prev_point]; [discriminate|].
  destruct (truthy_step (c_step (s_core s))) as [k|]; [|discriminate].
  destruct (excluded_opt_total s (in_bounds s (if (p - c_start (s_core s)) mod k =? 0 then p - k
               else p - (p - c_start (s_core s)) mod k)) Hn) as [b ->]. cbn [bind].
  destruct b; [|discriminate]. destruct (in_bounds s _); [apply IH|discriminate].
Qed.

Lemma prev_fuel fuel s k p :
  stepped s k -> Z.max 0 (p - c_start (s_core s)) < Z.of_nat fuel ->
  get_prev_point fuel s p <> Err EFuel.
Proof.
  intros [Hk Hpos]. revert p. induction fuel as [|fl IH]; intros p Hf; cbn [get_prev_point]; [lia|].
  rewrite Hk. destruct (grid_prev (c_start (s_core s)) k p Hpos) as (_ & Hlt & _).
  set (prev := if (p - c_start (s_core s)) mod k =? 0 then p - k
               else p - (p - c_start (s_core s)) mod k) in *.
  destruct (excluded_opt s (in_bounds s prev)) as [b|er] eqn:Eo; cbn [bind].
  - destruct b; [|discriminate]. destruct (in_bounds s prev) as [r0|] eqn:Eb; [|discriminate].
    apply in_bounds_some in Eb. destruct Eb as (-> & Hlo & _). apply IH. lia.
  - apply excluded_opt_err in Eo. subst. discriminate.
Qed.

(* ================================================================== *)
(* 6. get_first_point, get_start_point, get_stop_point                 *)
(* ================================================================== *)
Definition regular (s : seq) : Prop := (exists k, stepped s k) \/ oneoff s.

Lemma member_on_sequence s p : seq_member s p -> is_on_sequence s p = true.
Proof.
  intros H. apply is_valid_iff in H. unfold is_valid in H.
  destruct (is_on_sequence s p); [reflexivity|discriminate].
Qed.

Lemma member_ge_start s p : seq_member s p -> c_start (s_core s) <= p.
Proof. intros [[H _] _]. exact H. Qed.

Lemma member_le_stop s p e : seq_member s p -> c_stop (s_core s) = Some e -> p <= e.
Proof. intros [(_ & H & _) _]. apply H. Qed.

Lemma member_not_excluded s p : seq_member s p -> excluded s p = false.
Proof. intros [_ H]. apply excluded_false_iff. exact H. Qed.

Lemma start_member s :
  regular s -> (forall e, c_stop (s_core s) = Some e -> c_start (s_core s) <= e) ->
  excluded s (c_start (s_core s)) = false -> seq_member s (c_start (s_core s)).
Proof.
  intros [[k [Hk Hpos]]|Ho] Hne Hex.
  - apply (member_stepped s k _ Hk). repeat split; auto; try lia.
    rewrite Z.sub_diag. apply Z.mod_0_l. lia.
  - apply (member_oneoff s _ Ho). auto.
Qed.

Lemma next_regular fuel s x r :
  regular s -> c_start (s_core s) <= x ->
  get_next_point fuel s x = Ok r -> is_least_gt (seq_member s) x r.
Proof.
  intros [[k Hs]|Ho] Hx H.
  - eapply next_stepped; eauto. destruct Hs. lia.
  - eapply next_oneoff; eauto. lia.
Qed.

Lemma nos_start_regular fuel s r :
  regular s ->
  get_next_point_on_sequence fuel s (c_start (s_core s)) = Ok r ->
  is_least_gt (seq_member s) (c_start (s_core s)) r.
Proof.
  intros [[k Hs]|Ho] H.
  - eapply nos_stepped; eauto; destruct Hs as [_ Hpos]; [|lia].
    rewrite Z.sub_diag. apply Z.mod_0_l. lia.
  - destruct fuel as [|fl]; [discriminate|]. rewrite nos_oneoff in H by (auto; discriminate).
    injection H as <-. cbn. intros m' Hm'. apply (member_oneoff s m' Ho) in Hm'. lia.
Qed.

(* after skipping an excluded start point *)
Lemma least_ge_from_start s p r :
  p <= c_start (s_core s) -> excluded s (c_start (s_core s)) = true ->
  is_least_gt (seq_member s) (c_start (s_core s)) r -> is_least_ge (seq_member s) p r.
Proof.
  intros Hp Hex Hr.
  assert (Hne : forall m', seq_member s m' -> c_start (s_core s) < m').
  { intros m' Hm'. pose proof (member_ge_start s m' Hm').
    destruct (Z.eq_dec m' (c_start (s_core s))) as [->|]; [|lia].
    apply member_not_excluded in Hm'. congruence. }
  destruct r as [m|]; cbn in *.
  - destruct Hr as (Hm & Hgt & Hmin). split; [exact Hm|split; [lia|]].
    intros m' Hm' _. apply Hmin; auto.
  - intros m' Hm'. specialize (Hr m' Hm'). specialize (Hne m' Hm'). lia.
Qed.

Lemma first_regular fuel s p r :
  regular s -> get_first_point fuel s p = Ok r -> is_least_ge (seq_member s) p r.
Proof.
  intros Hreg. unfold get_first_point.
  destruct (p <=? c_start (s_core s)) eqn:Ep.
  - cbn [bind]. destruct (in_bounds s (c_start (s_core s))) as [r0|] eqn:Eb.
    + apply in_bounds_some in Eb. destruct Eb as (-> & _ & Hhi).
      destruct (excluded s (c_start (s_core s))) eqn:Ex.
      * intros H. eapply least_ge_from_start; eauto; [lia|]. eapply nos_start_regular; eauto.
      * intros [= <-]. cbn. split; [|split; [lia|]].
        -- apply start_member; auto.
        -- intros m' Hm' _. apply member_ge_start; auto.
    + intros [= <-]. cbn. intros m' Hm'. exfalso.
      apply in_bounds_none in Eb. destruct Eb as [|[e [He Hlt]]]; [lia|].
      pose proof (member_ge_start s m' Hm'). pose proof (member_le_stop s m' e Hm' He). lia.
  - destruct (is_on_sequence s p) eqn:Eon.
    + cbn [bind]. destruct (in_bounds s p) as [r0|] eqn:Eb.
      * apply in_bounds_some in Eb. destruct Eb as (-> & Hlo & Hhi).
        assert (Hex : excluded s p = false).
        { unfold is_on_sequence in Eon. destruct (excluded s p); [discriminate|reflexivity]. }
        rewrite Hex. intros [= <-]. cbn. split; [|split; [lia|auto]].
        apply is_valid_iff. unfold is_valid. rewrite Eon. cbn.
        destruct (c_stop (s_core s)) as [e|]; [specialize (Hhi e eq_refl)|]; lia.
      * intros [= <-]. cbn. intros m' Hm'.
        apply in_bounds_none in Eb. destruct Eb as [|[e [He Hlt]]]; [lia|].
        pose proof (member_le_stop s m' e Hm' He). lia.
    + assert (Hnp : ~ seq_member s p).
      { intros Hm. apply member_on_sequence in Hm. congruence. }
      destruct (get_next_point fuel s p) as [pt|er] eqn:En; cbn [bind]; [|discriminate].
      apply next_regular in En; [|exact Hreg|lia].
      destruct pt as [m|]; cbn in En.
      * destruct En as (Hm & Hgt & Hmin). rewrite (member_not_excluded s m Hm).
        intros [= <-]. cbn. split; [exact Hm|split; [lia|]].
        intros m' Hm' Hge. apply Hmin; [exact Hm'|].
        destruct (Z.eq_dec m' p) as [->|]; [contradiction|lia].
      * intros [= <-]. cbn. intros m' Hm'. specialize (En m' Hm').
        destruct (Z.eq_dec m' p) as [->|]; [contradiction|lia].
Qed.

Lemma start_regular fuel s r :
  regular s -> (forall e, c_stop (s_core s) = Some e -> c_start (s_core s) <= e) ->
  get_start_point fuel s = Ok r -> is_min (seq_member s) r.
Proof.
  intros Hreg Hne. unfold get_start_point.
  destruct (excluded s (c_start (s_core s))) eqn:Ex.
  - intros H. apply nos_start_regular in H; [|exact Hreg].
    apply (least_ge_from_start s (c_start (s_core s))) in H; [|lia|exact Ex].
    destruct r as [m|]; cbn in *.
    + destruct H as (Hm & _ & Hmin). split; [exact Hm|].
      intros m' Hm'. apply Hmin; [exact Hm'|apply member_ge_start; auto].
    + intros m' Hm'. specialize (H m' Hm'). pose proof (member_ge_start s m' Hm'). lia.
  - intros [= <-]. cbn. split; [apply start_member; auto|].
    intros m' Hm'. apply member_ge_start; auto.
Qed.

Lemma stop_stepped fuel s k e r :
  stepped s k -> stop_on_grid s k -> c_stop (s_core s) = Some e -> c_start (s_core s) <= e ->
  get_stop_point fuel s = Ok r -> is_max (seq_member s) r.
Proof.
  intros Hs Hsg He Hne. unfold get_stop_point. rewrite He, excluded_opt_some. cbn [bind].
  destruct (excluded s e) eqn:Ex.
  - intros H. apply (prev_stepped fuel s k e r Hs Hsg) in H.
    2:{ intros e' He'. rewrite He in He'. injection He' as <-. destruct Hs. lia. }
    assert (Hlt : forall m', seq_member s m' -> m' < e).
    { intros m' Hm'. pose proof (member_le_stop s m' e Hm' He).
      destruct (Z.eq_dec m' e) as [->|]; [|lia].
      apply member_not_excluded in Hm'. congruence. }
    destruct r as [m|]; cbn in *.
    + destruct H as (Hm & _ & Hmax). split; [exact Hm|]. intros m' Hm'. apply Hmax; auto.
    + intros m' Hm'. specialize (H m' Hm'). specialize (Hlt m' Hm'). lia.
  - intros [= <-]. cbn. split.
    + destruct Hs as [Hk Hpos]. apply (member_stepped s k e Hk). repeat split; auto.
      intros e' He'. rewrite He in He'. injection He' as <-. lia.
    + intros m' Hm'. eapply member_le_stop; eauto.
Qed.

Lemma stop_oneoff fuel s r :
  oneoff s -> c_stop (s_core s) = Some (c_start (s_core s)) ->
  get_stop_point fuel s = Ok r -> is_max (seq_member s) r.
Proof.
  intros Ho He. unfold get_stop_point. rewrite He, excluded_opt_some. cbn [bind].
  destruct (excluded s (c_start (s_core s))) eqn:Ex.
  - destruct fuel as [|fl]; [discriminate|]. rewrite prev_oneoff by (auto; discriminate).
    intros [= <-]. cbn. intros m' Hm'. pose proof (member_not_excluded s m' Hm').
    apply (member_oneoff s m' Ho) in Hm'. destruct Hm' as (-> & _). congruence.
  - intros [= <-]. cbn. split.
    + apply start_member; [right; exact Ho| |exact Ex].
      intros e' He'. rewrite He in He'. injection He' as <-. lia.
    + intros m' Hm'. apply (member_oneoff s m' Ho) in Hm'. lia.
Qed.

Lemma stop_unbounded fuel s r :
  c_stop (s_core s) = None -> get_stop_point fuel s = Ok r -> r = None.
Proof.
  intros He. unfold get_stop_point. rewrite He.
  destruct (excluded_opt s None) as [b|er]; cbn [bind]; [|discriminate].
  destruct b; intros [= <-]; reflexivity.
Qed.

(* ================================================================== *)
(* 7. get_nearest_prev_point                                           *)
(* ================================================================== *)
(* the while loop, once it holds a previous point y: it ends with the greatest
   element <= p among y and the members *)
Lemma nprev_loop_some fuel s p sp y r :
  regular s -> c_start (s_core s) <= y -> y <= p ->
  is_least_gt (seq_member s) y sp ->
  nprev_loop fuel s p sp (Some y) = Ok r ->
  exists y', r = Some y' /\ y' <= p /\ (y' = y \/ seq_member s y') /\
             forall m', seq_member s m' -> m' <= p -> m' <= y'.
Proof.
  intros Hreg. revert sp y r.
  induction fuel as [|fl IH]; intros sp y r Hay Hyp Hsp; cbn [nprev_loop]; [discriminate|].
  destruct sp as [x|].
  - cbn in Hsp. destruct Hsp as (Hx & Hyx & Hmin).
    destruct (x >? p) eqn:Exp.
    + intros [= <-]. exists y. repeat split; auto.
      intros m' Hm' Hle. destruct (Z.le_gt_cases m' y) as [|Hgt]; [assumption|].
      specialize (Hmin m' Hm' Hgt). lia.
    + destruct (get_next_point (S fl) s x) as [nx|er] eqn:En; cbn [bind]; [|discriminate].
      apply next_regular in En; [|exact Hreg|lia].
      intros H. apply IH in H; [|lia|lia|exact En].
      destruct H as (y' & -> & Hle & Hor & Hall). exists y'. repeat split; auto.
      right. destruct Hor as [->|]; assumption.
  - intros [= <-]. exists y. repeat split; auto.
Qed.

Lemma nprev_off fuel s p r :
  regular s -> is_on_sequence s p = false ->
  get_nearest_prev_point fuel s p = Ok r -> is_greatest_lt (seq_member s) p r.
Proof.
  intros Hreg. revert p r.
  induction fuel as [|fl IH]; intros p r Hoff; cbn [get_nearest_prev_point]; [discriminate|].
  rewrite Hoff.
  assert (Hnp : ~ seq_member s p).
  { intros Hm. apply member_on_sequence in Hm. congruence. }
  destruct (nprev_loop (S fl) s p (in_bounds s (c_start (s_core s))) None) as [prev|er] eqn:El;
    cbn [bind]; [|discriminate].
  cbn [nprev_loop] in El.
  destruct (in_bounds s (c_start (s_core s))) as [a0|] eqn:Eb.
  - apply in_bounds_some in Eb. destruct Eb as (-> & _ & Hhi).
    destruct (c_start (s_core s) >? p) eqn:Eap.
    + injection El as <-.
      destruct (excluded_opt s None) as [b|er] eqn:Eo; cbn [bind]; [|discriminate].
      apply excluded_opt_none_ok in Eo. subst b. intros [= <-]. cbn.
      intros m' Hm'. pose proof (member_ge_start s m' Hm'). lia.
    + destruct (get_next_point (S fl) s (c_start (s_core s))) as [nx|er] eqn:En; cbn [bind] in El; [|discriminate].
      apply next_regular in En; [|exact Hreg|lia].
      apply nprev_loop_some in El; [|exact Hreg|lia|lia|exact En].
      destruct El as (y & -> & Hyp & Hor & Hall).
      rewrite excluded_opt_some. cbn [bind].
      destruct (excluded s y) eqn:Ex.
      * (* only the start point itself can be an excluded previous point *)
        assert (Hy : y = c_start (s_core s)).
        { destruct Hor as [|Hm]; [assumption|]. apply member_not_excluded in Hm. congruence. }
        subst y. destruct (c_start (s_core s) =? p) eqn:Eq; [discriminate|].
        intros H. apply IH in H.
        2:{ unfold is_on_sequence. rewrite Ex. reflexivity. }
        assert (Hlt : forall m', seq_member s m' -> m' < p -> m' < c_start (s_core s)).
        { intros m' Hm' Hl. specialize (Hall m' Hm' ltac:(lia)).
          destruct (Z.eq_dec m' (c_start (s_core s))) as [->|]; [|lia].
          apply member_not_excluded in Hm'. congruence. }
        destruct r as [m|]; cbn in *.
        -- destruct H as (Hm & Hma & Hmax). split; [exact Hm|split; [lia|]].
           intros m' Hm' Hl. apply Hmax; auto.
        -- intros m' Hm'. specialize (H m' Hm').
           destruct (Z.le_gt_cases p m') as [|Hgt]; [assumption|].
           specialize (Hlt m' Hm' Hgt). lia.
      * intros [= <-]. cbn.
        assert (Hmy : seq_member s y).
        { destruct Hor as [->|]; [|assumption]. apply start_member; auto. }
        split; [exact Hmy|split].
        -- destruct (Z.eq_dec y p) as [->|]; [contradiction|lia].
        -- intros m' Hm' Hl. apply Hall; [exact Hm'|lia].
  - injection El as <-.
    destruct (excluded_opt s None) as [b|er] eqn:Eo; cbn [bind]; [|discriminate].
    apply excluded_opt_none_ok in Eo. subst b. intros [= <-]. cbn.
    intros m' Hm'. exfalso. apply in_bounds_none in Eb. destruct Eb as [|[e [He Hlt]]]; [lia|].
    pose proof (member_ge_start s m' Hm'). pose proof (member_le_stop s m' e Hm' He). lia.
Qed.

Lemma nprev_on fuel s p :
  is_on_sequence s p = true ->
  get_nearest_prev_point fuel s p = match fuel with O => Err EFuel | S _ => get_prev_point fuel s p end.
Proof. intros H. destruct fuel as [|fl]; [reflexivity|]. cbn [get_nearest_prev_point]. rewrite H. reflexivity. Qed.

Lemma nprev_stepped fuel s k p r :
  stepped s k -> stop_on_grid s k ->
  (is_on_sequence s p = true -> forall e, c_stop (s_core s) = Some e -> p <= e + k) ->
  get_nearest_prev_point fuel s p = Ok r -> is_greatest_lt (seq_member s) p r.
Proof.
  intros Hs Hsg Hp. destruct (is_on_sequence s p) eqn:Eon.
  - rewrite nprev_on by exact Eon. destruct fuel as [|fl]; [discriminate|].
    apply (prev_stepped (S fl) s k p r); auto.
  - apply nprev_off; [left; eauto|exact Eon].
Qed.

Lemma nprev_oneoff fuel s p r :
  oneoff s -> get_nearest_prev_point fuel s p = Ok r -> is_greatest_lt (seq_member s) p r.
Proof.
  intros Ho. destruct (is_on_sequence s p) eqn:Eon.
  - rewrite nprev_on by exact Eon. destruct fuel as [|fl]; [discriminate|].
    rewrite prev_oneoff by (auto; discriminate). intros [= <-]. cbn.
    unfold is_on_sequence, on_seq_core in Eon. unfold oneoff in Ho. rewrite Ho in Eon.
    destruct (excluded s p); [discriminate|].
    intros m' Hm'. apply (member_oneoff s m' Ho) in Hm'. lia.
  - apply nprev_off; [right; exact Ho|exact Eon].
Qed.

(* ================================================================== *)
(* 8. what a recurrence form means: the clipped progression            *)
(* ================================================================== *)
(* START defaults to / is relative to the initial point *)
Definition resolve (e : option pexpr) (ctx : Z) : Z :=
  match e with None => ctx | Some (Abs v) => v | Some (Rel j) => ctx + j end.

(* END defaults to / is relative to the final point, which may be missing *)
Definition end_point (e : option pexpr) (ce : option Z) : option Z :=
  match e, ce with
  | Some (Abs v), _ => Some v
  | Some (Rel j), Some F => Some (F + j)
  | None, Some F => Some F
  | _, None => None
  end.

Inductive shape :=
| OneOff (a : Z)                      (* a single point *)
| Up (a k : Z) (n : option Z)         (* a, a+k, a+2k, ... (n terms when given) *)
| Down (e k : Z) (n : option Z).      (* e, e-k, e-2k, ... (n terms when given) *)

Definition prog (sh : shape) (p : Z) : Prop :=
  match sh with
  | OneOff a => p = a
  | Up a k n => exists i, 0 <= i /\ p = a + i * k /\ forall m, n = Some m -> i < m
  | Down e k n => exists i, 0 <= i /\ p = e - i * k /\ forall m, n = Some m -> i < m
  end.

Definition in_ctx (cs : Z) (ce : option Z) (p : Z) : Prop :=
  cs <= p /\ forall F, ce = Some F -> p <= F.

(* the progression each recurrence form defines (format_num meanings of the
   source: 1 = run n times between START and END, 3 = start at START and keep
   adding INTV, 4 = start at END and keep subtracting INTV); None = the form
   has no meaning here (missing final point, R//END, uneven Rn/START/END) *)
Definition shape_of (f : form) (cs : Z) (ce : option Z) : option shape :=
  if f_fmt f =? 3 then
    let a := resolve (f_start f) cs in
    match f_intv f, f_reps f with
    | None, _ => Some (OneOff a)
    | Some k, Some n => if n =? 1 then Some (OneOff a) else Some (Up a k (Some n))
    | Some k, None => Some (Up a k None)
    end
  else if f_fmt f =? 4 then
    match end_point (f_end f) ce with
    | None => None
    | Some e =>
        match f_reps f, f_intv f with
        | Some n, Some k => if n =? 1 then Some (OneOff e) else Some (Down e k (Some n))
        | Some n, None => if n =? 1 then Some (OneOff e) else None
        | None, Some k => Some (Down e k None)
        | None, None => None
        end
    end
  else if f_fmt f =? 1 then
    match f_reps f, end_point (f_end f) ce with
    | Some n, Some e =>
        let a := resolve (f_start f) cs in
        if n =? 1 then Some (OneOff a)
        else if (1 <? n) && (a <? e) && ((e - a) mod (n - 1) =? 0)
             then Some (Up a ((e - a) / (n - 1)) (Some n))
             else None
    | _, _ => None
    end
  else None.

(* the points of the recurrence: its progression within [initial, final] *)
Definition denote0 (f : form) (cs : Z) (ce : option Z) (p : Z) : Prop :=
  exists sh, shape_of f cs ce = Some sh /\ prog sh p /\ in_ctx cs ce p.

(* the dispatch never fills START for format 4 nor END for format 3 *)
Definition wf_form (f : form) : Prop :=
  (f_fmt f = 3 -> f_end f = None) /\ (f_fmt f = 4 -> f_start f = None).

(* Inputs outside the defect classes of the constructor (side conditions
   k >= 1, n >= 2 for a repeated progression included):
   - a one-off point lies within the context (one-offs are not clipped);
   - an upward progression starts at or after the initial point (the start
     clipping arithmetic is wrong) and, when n is given, its last term is at
     or before the final point (the stop clipping arithmetic is wrong);
   - a downward progression with n terms: first term at or after the initial
     point, END at or before the final point;
   - a downward progression without n: END is the final point (the code takes
     the phase from the context, not from END). *)
Definition sane (sh : shape) (cs : Z) (ce : option Z) : Prop :=
  match sh with
  | OneOff a => in_ctx cs ce a
  | Up a k n =>
      0 < k /\ cs <= a /\
      forall m, n = Some m -> 2 <= m /\ forall F, ce = Some F -> a + (m - 1) * k <= F
  | Down e k (Some m) =>
      0 < k /\ 2 <= m /\ cs <= e - (m - 1) * k /\ forall F, ce = Some F -> e <= F
  | Down e k None => 0 < k /\ ce = Some e
  end.

(* first and last point of the clipped progression (last = None: unbounded);
   they are the context given to exclusion sequences *)
Definition bounds (sh : shape) (cs : Z) (ce : option Z) : Z * option Z :=
  match sh with
  | OneOff a => (a, Some a)
  | Up a k None => (a, match ce with Some F => Some (F - (F - a) mod k) | None => None end)
  | Up a k (Some m) => (a, Some (a + (m - 1) * k))
  | Down e k (Some m) => (e - (m - 1) * k, Some e)
  | Down e k None => (cs + (e - cs) mod k, Some e)
  end.

Definition core_regular (c : core) : Prop :=
  (exists k, truthy_step (c_step c) = Some k /\ 0 < k /\
             forall e, c_stop c = Some e -> (e - c_start c) mod k = 0)
  \/ (truthy_step (c_step c) = None /\ c_stop c = Some (c_start c)).

Definition core_ok (c : core) (sh : shape) (cs : Z) (ce : option Z) : Prop :=
  (forall p, core_member c p <-> prog sh p /\ in_ctx cs ce p) /\
  (c_start c, c_stop c) = bounds sh cs ce /\ core_regular c.

Lemma pfe_start e cs b : point_from_expr e (Some cs) b = Ok (Some (resolve e cs)).
Proof. destruct e as [[v|j]|]; reflexivity. Qed.

Lemma pfe_end e ce v b : end_point e ce = Some v -> point_from_expr e ce b = Ok (Some v).
Proof.
  destruct e as [[v'|j]|], ce as [F|]; cbn; intros [= <-]; reflexivity || discriminate.
Qed.

Lemma pfe_none ce : point_from_expr None ce false = Ok ce.
Proof. destruct ce; reflexivity. Qed.

Lemma truthy_pos k : 0 < k -> truthy_step (Some k) = Some k.
Proof. intros H. unfold truthy_step. destruct (k =? 0) eqn:E; [lia|reflexivity]. Qed.

(* members of a regular stepped core, in grid form *)
Lemma core_member_stepped st sp k p :
  0 < k ->
  (core_member {| c_start := st; c_stop := sp; c_step := Some k |} p <->
   st <= p /\ (forall e, sp = Some e -> p <= e) /\ exists i, p = st + i * k).
Proof. intros Hk. unfold core_member. cbn [c_start c_stop c_step]. rewrite truthy_pos by exact Hk. tauto. Qed.

Lemma core_member_oneoff a p :
  core_member {| c_start := a; c_stop := Some a; c_step := None |} p <-> p = a.
Proof.
  unfold core_member. cbn. split; [intros (_ & _ & H); exact H|].
  intros ->. repeat split; try lia. intros e [= <-]. lia.
Qed.

Lemma oneoff_ok a cs ce :
  in_ctx cs ce a -> core_ok {| c_start := a; c_stop := Some a; c_step := None |} (OneOff a) cs ce.
Proof.
  intros Hc. split; [|split; [reflexivity|right; split; reflexivity]].
  intros p. rewrite core_member_oneoff. cbn. split; [intros ->; auto|tauto].
Qed.

(* ---------- the four stepped shapes, as states ---------- *)
Lemma up_inf_ok a k cs ce :
  0 < k -> cs <= a ->
  core_ok {| c_start := a;
             c_stop := match ce with Some F => Some (F - (F - a) mod k) | None => None end;
             c_step := Some k |} (Up a k None) cs ce.
Proof.
  intros Hk Ha. split; [|split; [reflexivity|]].
  - intros p. rewrite core_member_stepped by exact Hk. cbn [prog]. unfold in_ctx.
    destruct ce as [F|].
    + pose proof (Z.mod_pos_bound (F - a) k Hk) as Hb.
      pose proof (Z.div_mod (F - a) k ltac:(lia)) as Hd.
      split.
      * intros (H1 & H2 & [i ->]). specialize (H2 _ eq_refl).
        split; [exists i; repeat split; [nia|discriminate]|].
        split; [lia|]. intros F' [= <-]. lia.
      * intros [[i (Hi & -> & _)] [H1 H2]]. specialize (H2 _ eq_refl).
        split; [nia|]. split; [|exists i; reflexivity].
        intros e [= <-]. assert (i <= (F - a) / k) by nia. nia.
    + split.
      * intros (H1 & _ & [i ->]). split; [exists i; repeat split; [nia|discriminate]|].
        split; [lia|discriminate].
      * intros [[i (Hi & -> & _)] [H1 _]]. split; [nia|]. split; [discriminate|exists i; reflexivity].
  - left. exists k. cbn [c_start c_stop c_step]. rewrite truthy_pos by exact Hk.
    split; [reflexivity|split; [exact Hk|]]. intros e He. destruct ce as [F|]; [|discriminate].
    injection He as <-.
    pose proof (Z.div_mod (F - a) k ltac:(lia)) as Hd.
    replace (F - (F - a) mod k - a) with (((F - a) / k) * k) by lia. apply Z.mod_mul. lia.
Qed.

Lemma up_n_ok a k m cs ce :
  0 < k -> cs <= a -> 2 <= m -> (forall F, ce = Some F -> a + (m - 1) * k <= F) ->
  core_ok {| c_start := a; c_stop := Some (a + k * (m - 1)); c_step := Some k |}
          (Up a k (Some m)) cs ce.
Proof.
  intros Hk Ha Hm HF. split; [|split].
  - intros p. rewrite core_member_stepped by exact Hk. cbn [prog]. unfold in_ctx. split.
    + intros (H1 & H2 & [i ->]). specialize (H2 _ eq_refl).
      split; [exists i; repeat split; [nia|]|].
      * intros m' [= <-]. nia.
      * split; [lia|]. intros F HFe. specialize (HF F HFe). nia.
    + intros [[i (Hi & -> & Hlt)] [H1 H2]]. specialize (Hlt m eq_refl).
      split; [nia|]. split; [|exists i; reflexivity]. intros e [= <-]. nia.
  - cbn [bounds c_start c_stop]. f_equal. f_equal. lia.
  - left. exists k. cbn [c_start c_stop c_step]. rewrite truthy_pos by exact Hk.
    split; [reflexivity|split; [exact Hk|]]. intros e [= <-].
    replace (a + k * (m - 1) - a) with ((m - 1) * k) by lia. apply Z.mod_mul. lia.
Qed.

Lemma down_n_ok e k m cs ce :
  0 < k -> 2 <= m -> cs <= e - (m - 1) * k -> (forall F, ce = Some F -> e <= F) ->
  core_ok {| c_start := e - k * (m - 1); c_stop := Some e; c_step := Some k |}
          (Down e k (Some m)) cs ce.
Proof.
  intros Hk Hm Hs HF. split; [|split].
  - intros p. rewrite core_member_stepped by exact Hk. cbn [prog]. unfold in_ctx. split.
    + intros (H1 & H2 & [i ->]). specialize (H2 _ eq_refl).
      split; [exists (m - 1 - i); repeat split; [nia|lia|]|].
      * intros m' [= <-]. nia.
      * split; [nia|]. intros F HFe. specialize (HF F HFe). lia.
    + intros [[i (Hi & -> & Hlt)] [H1 H2]]. specialize (Hlt m eq_refl).
      split; [nia|]. split; [|exists (m - 1 - i); lia]. intros e' [= <-]. nia.
  - cbn [bounds c_start c_stop]. f_equal. lia.
  - left. exists k. cbn [c_start c_stop c_step]. rewrite truthy_pos by exact Hk.
    split; [reflexivity|split; [exact Hk|]]. intros e' [= <-].
    replace (e - (e - k * (m - 1))) with ((m - 1) * k) by lia. apply Z.mod_mul. lia.
Qed.

Lemma down_inf_ok e k cs :
  0 < k ->
  core_ok {| c_start := cs + (e - cs) mod k; c_stop := Some e; c_step := Some k |}
          (Down e k None) cs (Some e).
Proof.
  intros Hk.
  pose proof (Z.mod_pos_bound (e - cs) k Hk) as Hb.
  pose proof (Z.div_mod (e - cs) k ltac:(lia)) as Hd.
  split; [|split; [reflexivity|]].
  - intros p. rewrite core_member_stepped by exact Hk. cbn [prog]. unfold in_ctx. split.
    + intros (H1 & H2 & [i ->]). specialize (H2 _ eq_refl).
      split; [exists ((e - cs) / k - i); repeat split; [nia|lia|discriminate]|].
      split; [lia|]. intros F [= <-]. lia.
    + intros [[i (Hi & -> & _)] [H1 H2]].
      assert (0 <= (e - cs) / k - i) by nia.
      split; [nia|]. split; [intros e' [= <-]; nia|].
      exists ((e - cs) / k - i). lia.
  - left. exists k. cbn [c_start c_stop c_step]. rewrite truthy_pos by exact Hk.
    split; [reflexivity|split; [exact Hk|]]. intros e' [= <-].
    replace (e - (cs + (e - cs) mod k)) with (((e - cs) / k) * k) by lia. apply Z.mod_mul. lia.
Qed.
