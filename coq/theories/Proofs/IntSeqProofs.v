(* Proofs/IntSeqProofs.v — lemmas about Model/IntSeq.v *)
From Coq Require Import List ZArith Bool Lia ZifyBool.
From Cylc Require Import Base.Util Model.IntSeq.
Import ListNotations.
Local Open Scope Z_scope.

(* ================================================================== *)
(* 1. arithmetic of grids  a + i*k                                     *)
(* ================================================================== *)
Lemma grid_iff a k g : k <> 0 -> ((g - a) mod k = 0 <-> exists i, g = a + i * k).
Proof.
  intros Hk. rewrite Z.mod_divide by exact Hk. split.
  - intros [i Hi]. exists i. lia.
  - intros [i Hi]. exists i. lia.
Qed.

Lemma grid_next a k p : 0 < k ->
  let i := (p - a) mod k in
  (p + k - i - a) mod k = 0 /\ p < p + k - i /\
  forall g, (g - a) mod k = 0 -> p < g -> p + k - i <= g.
Proof.
  intros Hk i. subst i.
  pose proof (Z.mod_pos_bound (p - a) k Hk) as Hb.
  pose proof (Z.div_mod (p - a) k ltac:(lia)) as Hd.
  split; [|split; [lia|]].
  - replace (p + k - (p - a) mod k - a) with ((1 + (p - a) / k) * k) by lia.
    apply Z.mod_mul. lia.
  - intros g Hg Hlt. apply grid_iff in Hg; [|lia]. destruct Hg as [j ->].
    assert (j > (p - a) / k) by nia. nia.
Qed.

Lemma grid_prev a k p : 0 < k ->
  let i := (p - a) mod k in
  let prev := if i =? 0 then p - k else p - i in
  (prev - a) mod k = 0 /\ prev < p /\
  forall g, (g - a) mod k = 0 -> g < p -> g <= prev.
Proof.
  intros Hk i prev. subst i prev.
  pose proof (Z.mod_pos_bound (p - a) k Hk) as Hb.
  pose proof (Z.div_mod (p - a) k ltac:(lia)) as Hd.
  destruct ((p - a) mod k =? 0) eqn:E.
  - assert (E' : (p - a) mod k = 0) by lia. split; [|split; [lia|]].
    + replace (p - k - a) with (((p - a) / k - 1) * k) by lia. apply Z.mod_mul. lia.
    + intros g Hg Hlt. apply grid_iff in Hg; [|lia]. destruct Hg as [j ->].
      assert (j < (p - a) / k) by nia. nia.
  - assert (E' : (p - a) mod k <> 0) by lia. split; [|split; [lia|]].
    + replace (p - (p - a) mod k - a) with (((p - a) / k) * k) by lia. apply Z.mod_mul. lia.
    + intros g Hg Hlt. apply grid_iff in Hg; [|lia]. destruct Hg as [j ->].
      assert (j <= (p - a) / k) by nia. nia.
Qed.

(* a grid point above a - k is at least a; one below a + k is at most a *)
Lemma grid_ge a k g : 0 < k -> (g - a) mod k = 0 -> a - k < g -> a <= g.
Proof.
  intros Hk Hg Hlt. apply grid_iff in Hg; [|lia]. destruct Hg as [j ->].
  assert (j > -1) by nia. nia.
Qed.

Lemma grid_le a k g : 0 < k -> (g - a) mod k = 0 -> g < a + k -> g <= a.
Proof.
  intros Hk Hg Hlt. apply grid_iff in Hg; [|lia]. destruct Hg as [j ->].
  assert (j < 1) by nia. nia.
Qed.

Lemma grid_shift a k g : 0 < k -> (g - a) mod k = 0 -> (g + k - a) mod k = 0.
Proof.
  intros Hk Hg. apply grid_iff in Hg; [|lia]. destruct Hg as [j ->].
  apply grid_iff; [lia|]. exists (j + 1). lia.
Qed.

Lemma grid_trans a b k g : 0 < k -> (b - a) mod k = 0 -> ((g - a) mod k = 0 <-> (g - b) mod k = 0).
Proof.
  intros Hk Hb. apply grid_iff in Hb; [|lia]. destruct Hb as [j ->].
  rewrite !grid_iff by lia. split; intros [i Hi].
  - exists (i - j). lia.
  - exists (i + j). lia.
Qed.

(* ================================================================== *)
(* 2. specification vocabulary                                         *)
(* ================================================================== *)
(* the set of points an exclusion-free state stands for: the progression
   from p_start with step i_step (a single point when the step is None/P0),
   within [p_start, p_stop] *)
Definition core_member (c : core) (p : Z) : Prop :=
  c_start c <= p /\ (forall e, c_stop c = Some e -> p <= e) /\
  match truthy_step (c_step c) with
  | Some k => exists i, p = c_start c + i * k
  | None => p = c_start c
  end.

Definition excl_member (x : list Z * list core) (p : Z) : Prop :=
  In p (fst x) \/ exists c, In c (snd x) /\ core_member c p.

(* ... minus the exclusion points and the points of the exclusion sequences *)
Definition seq_member (s : seq) (p : Z) : Prop :=
  core_member (s_core s) p /\ forall x, s_excl s = Some x -> ~ excl_member x p.

(* what each query must return with respect to a set M *)
Definition is_least_gt (M : Z -> Prop) (p : Z) (r : option Z) : Prop :=
  match r with
  | Some m => M m /\ p < m /\ forall m', M m' -> p < m' -> m <= m'
  | None => forall m', M m' -> m' <= p
  end.
Definition is_least_ge (M : Z -> Prop) (p : Z) (r : option Z) : Prop :=
  match r with
  | Some m => M m /\ p <= m /\ forall m', M m' -> p <= m' -> m <= m'
  | None => forall m', M m' -> m' < p
  end.
Definition is_greatest_lt (M : Z -> Prop) (p : Z) (r : option Z) : Prop :=
  match r with
  | Some m => M m /\ m < p /\ forall m', M m' -> m' < p -> m' <= m
  | None => forall m', M m' -> p <= m'
  end.
Definition is_min (M : Z -> Prop) (r : option Z) : Prop :=
  match r with
  | Some m => M m /\ forall m', M m' -> m <= m'
  | None => forall m', ~ M m'
  end.
Definition is_max (M : Z -> Prop) (r : option Z) : Prop :=
  match r with
  | Some m => M m /\ forall m', M m' -> m' <= m
  | None => forall m', ~ M m'
  end.

(* state shapes *)
Definition stepped (s : seq) (k : Z) : Prop :=
  truthy_step (c_step (s_core s)) = Some k /\ 0 < k.
Definition oneoff (s : seq) : Prop := truthy_step (c_step (s_core s)) = None.
Definition stop_on_grid (s : seq) (k : Z) : Prop :=
  forall e, c_stop (s_core s) = Some e -> (e - c_start (s_core s)) mod k = 0.

(* ================================================================== *)
(* 3. membership                                                       *)
(* ================================================================== *)
Lemma truthy_step_some st k : truthy_step st = Some k -> st = Some k /\ k <> 0.
Proof.
  unfold truthy_step. destruct st as [k'|]; [|discriminate].
  destruct (k' =? 0) eqn:E; [discriminate|]. intros [= <-]. split; [reflexivity|lia].
Qed.

Lemma valid_core_iff c p : valid_core c p = true <-> core_member c p.
Proof.
  unfold valid_core, core_member, on_seq_core.
  destruct (truthy_step (c_step c)) as [k|] eqn:Et.
  - apply truthy_step_some in Et. destruct Et as [_ Hk].
    rewrite <- (grid_iff (c_start c) k p Hk).
    destruct (c_stop c) as [e|].
    + split.
      * intros H. repeat split; try lia. intros e' [= <-]. lia.
      * intros (H1 & H2 & H3). specialize (H2 e eq_refl). lia.
    + split.
      * intros H. repeat split; try lia. intros e' [=].
      * intros (H1 & H2 & H3). lia.
  - destruct (c_stop c) as [e|].
    + split.
      * intros H. repeat split; try lia. intros e' [= <-]. lia.
      * intros (H1 & H2 & H3). specialize (H2 e eq_refl). lia.
    + split.
      * intros H. repeat split; try lia. intros e' [=].
      * intros (H1 & H2 & H3). lia.
Qed.

Lemma mem_Z_In p l : mem Z.eqb p l = true <-> In p l.
Proof. apply mem_In. intros x y. apply Z.eqb_eq. Qed.

Lemma excl_has_iff x p : excl_has x p = true <-> excl_member x p.
Proof.
  unfold excl_has, excl_member. rewrite orb_true_iff, mem_Z_In, existsb_exists.
  split; (intros [H|[c [Hc Hv]]]; [left; exact H|right; exists c; split; [exact Hc|]]);
    apply valid_core_iff; exact Hv.
Qed.

Lemma excluded_false_iff s p :
  excluded s p = false <-> forall x, s_excl s = Some x -> ~ excl_member x p.
Proof.
  unfold excluded. destruct (s_excl s) as [x|].
  - split.
    + intros H x' [= <-] Hm. apply excl_has_iff in Hm. congruence.
    + intros H. destruct (excl_has x p) eqn:E; [|reflexivity].
      exfalso. apply (H x eq_refl). apply excl_has_iff. exact E.
  - split; [intros _ x [=]|reflexivity].
Qed.

Lemma is_valid_unfold s p :
  is_valid s p = negb (excluded s p) && valid_core (s_core s) p.
Proof.
  unfold is_valid, is_on_sequence, valid_core.
  destruct (excluded s p); cbn; [reflexivity|].
  destruct (on_seq_core (s_core s) p); reflexivity.
Qed.

Lemma is_valid_iff s p : is_valid s p = true <-> seq_member s p.
Proof.
  rewrite is_valid_unfold, andb_true_iff, negb_true_iff, excluded_false_iff, valid_core_iff.
  unfold seq_member. tauto.
Qed.

(* boolean characterisation used by the query proofs *)
Lemma member_stepped s k p :
  truthy_step (c_step (s_core s)) = Some k ->
  (seq_member s p <->
   c_start (s_core s) <= p /\ (forall e, c_stop (s_core s) = Some e -> p <= e) /\
   (p - c_start (s_core s)) mod k = 0 /\ excluded s p = false).
Proof.
  intros Hk. unfold seq_member, core_member. rewrite Hk.
  apply truthy_step_some in Hk. destruct Hk as [_ Hk].
  rewrite <- (grid_iff _ k p Hk), excluded_false_iff. tauto.
Qed.

Lemma member_oneoff s p :
  truthy_step (c_step (s_core s)) = None ->
  (seq_member s p <->
   p = c_start (s_core s) /\ (forall e, c_stop (s_core s) = Some e -> p <= e) /\
   excluded s p = false).
Proof.
  intros Hk. unfold seq_member, core_member. rewrite Hk, excluded_false_iff.
  split; [intros [(H1 & H2 & H3) H4]|intros (H1 & H2 & H3)]; repeat split; auto; lia.
Qed.

Lemma in_bounds_some s p r :
  in_bounds s p = Some r ->
  r = p /\ c_start (s_core s) <= p /\ forall e, c_stop (s_core s) = Some e -> p <= e.
Proof.
  unfold in_bounds, in_bounds_core. destruct (c_stop (s_core s)) as [e|].
  - destruct ((c_start (s_core s) <=? p) && (p <=? e)) eqn:E; [|discriminate].
    intros [= <-]. repeat split; try lia. intros e' [= <-]. lia.
  - destruct ((c_start (s_core s) <=? p) && true) eqn:E; [|discriminate].
    intros [= <-]. repeat split; try lia. intros e' [=].
Qed.

Lemma in_bounds_none s p :
  in_bounds s p = None ->
  p < c_start (s_core s) \/ exists e, c_stop (s_core s) = Some e /\ e < p.
Proof.
  unfold in_bounds, in_bounds_core. destruct (c_stop (s_core s)) as [e|].
  - destruct ((c_start (s_core s) <=? p) && (p <=? e)) eqn:E; [discriminate|].
    intros _. destruct (Z.lt_ge_cases p (c_start (s_core s))); [left; assumption|].
    right. exists e. split; [reflexivity|lia].
  - destruct ((c_start (s_core s) <=? p) && true) eqn:E; [discriminate|].
    intros _. left. lia.
Qed.

(* ================================================================== *)
(* 4. get_next_point / get_next_point_on_sequence                      *)
(* ================================================================== *)
(* one step "go to the grid point nxt > p; skip it if excluded" is shared by
   both functions *)
Lemma least_gt_skip s k p nxt r :
  truthy_step (c_step (s_core s)) = Some k -> 0 < k ->
  (nxt - c_start (s_core s)) mod k = 0 -> p < nxt ->
  (forall g, (g - c_start (s_core s)) mod k = 0 -> p < g -> nxt <= g) ->
  excluded s nxt = true ->
  is_least_gt (seq_member s) nxt r -> is_least_gt (seq_member s) p r.
Proof.
  intros Hk Hpos Hgrid Hlt Hleast Hex Hr.
  assert (Hnot : ~ seq_member s nxt).
  { rewrite (member_stepped s k nxt Hk). intros (_ & _ & _ & E). congruence. }
  destruct r as [m|]; cbn in *.
  - destruct Hr as (Hm & Hgt & Hmin). split; [exact Hm|split; [lia|]].
    intros m' Hm' Hpm'. apply Hmin; [exact Hm'|].
    pose proof Hm' as Hm''. rewrite (member_stepped s k m' Hk) in Hm''.
    destruct Hm'' as (_ & _ & Hg & _). specialize (Hleast m' Hg Hpm').
    destruct (Z.eq_dec m' nxt) as [->|]; [contradiction|lia].
  - intros m' Hm'. destruct (Z.le_gt_cases m' p) as [|Hgt]; [assumption|].
    pose proof Hm' as Hm''. rewrite (member_stepped s k m' Hk) in Hm''.
    destruct Hm'' as (_ & _ & Hg & _). specialize (Hleast m' Hg ltac:(lia)).
    specialize (Hr m' Hm'). assert (m' = nxt) by lia. subst. contradiction.
Qed.

Lemma least_gt_hit s k p nxt :
  truthy_step (c_step (s_core s)) = Some k -> 0 < k ->
  (nxt - c_start (s_core s)) mod k = 0 -> p < nxt ->
  (forall g, (g - c_start (s_core s)) mod k = 0 -> p < g -> nxt <= g) ->
  c_start (s_core s) <= nxt -> (forall e, c_stop (s_core s) = Some e -> nxt <= e) ->
  excluded s nxt = false ->
  is_least_gt (seq_member s) p (Some nxt).
Proof.
  intros Hk Hpos Hgrid Hlt Hleast Hlo Hhi Hex. cbn. split; [|split; [exact Hlt|]].
  - apply (member_stepped s k nxt Hk). auto.
  - intros m' Hm' Hpm'. rewrite (member_stepped s k m' Hk) in Hm'.
    destruct Hm' as (_ & _ & Hg & _). auto.
Qed.

Lemma least_gt_none s k p nxt :
  truthy_step (c_step (s_core s)) = Some k -> 0 < k ->
  (forall g, (g - c_start (s_core s)) mod k = 0 -> p < g -> nxt <= g) ->
  (exists e, c_stop (s_core s) = Some e /\ e < nxt) ->
  is_least_gt (seq_member s) p None.
Proof.
  intros Hk Hpos Hleast [e [He Hlt]] m' Hm'. cbn.
  rewrite (member_stepped s k m' Hk) in Hm'. destruct Hm' as (_ & Hhi & Hg & _).
  specialize (Hhi e He). destruct (Z.le_gt_cases m' p) as [|Hgt]; [assumption|].
  specialize (Hleast m' Hg ltac:(lia)). lia.
Qed.

Lemma next_stepped fuel s k p r :
  stepped s k -> c_start (s_core s) - k <= p ->
  get_next_point fuel s p = Ok r -> is_least_gt (seq_member s) p r.
Proof.
  intros [Hk Hpos]. revert p r. induction fuel as [|fl IH]; intros p r Hp; cbn [get_next_point]; [discriminate|].
  rewrite Hk.
  destruct (grid_next (c_start (s_core s)) k p Hpos) as (Hg & Hlt & Hleast).
  set (nxt := p + k - (p - c_start (s_core s)) mod k) in *.
  destruct (in_bounds s nxt) as [r0|] eqn:Eb.
  - apply in_bounds_some in Eb. destruct Eb as (-> & Hlo & Hhi).
    destruct (excluded s nxt) eqn:Ex.
    + intros H. eapply least_gt_skip; eauto. apply IH; [lia|exact H].
    + intros [= <-]. eapply least_gt_hit; eauto.
  - intros [= <-]. apply in_bounds_none in Eb. destruct Eb as [Hlo|Hhi].
    + exfalso. assert (c_start (s_core s) <= nxt); [|lia].
      eapply grid_ge; eauto. lia.
    + eapply least_gt_none; eauto.
Qed.

Lemma next_oneoff fuel s p r :
  oneoff s -> (p < c_start (s_core s) -> seq_member s (c_start (s_core s))) ->
  get_next_point fuel s p = Ok r -> is_least_gt (seq_member s) p r.
Proof.
  intros Ho Hst. destruct fuel as [|fl]; cbn [get_next_point]; [discriminate|].
  unfold oneoff in Ho. rewrite Ho.
  destruct (p <? c_start (s_core s)) eqn:E; intros [= <-]; cbn.
  - split; [apply Hst; lia|split; [lia|]].
    intros m' Hm' _. apply (member_oneoff s m' Ho) in Hm'. lia.
  - intros m' Hm'. apply (member_oneoff s m' Ho) in Hm'. lia.
Qed.

Lemma nos_stepped fuel s k p r :
  stepped s k -> (p - c_start (s_core s)) mod k = 0 -> c_start (s_core s) - k <= p ->
  get_next_point_on_sequence fuel s p = Ok r -> is_least_gt (seq_member s) p r.
Proof.
  intros [Hk Hpos]. revert p r.
  induction fuel as [|fl IH]; intros p r Hgp Hp; cbn [get_next_point_on_sequence]; [discriminate|].
  rewrite Hk.
  assert (Hg : (p + k - c_start (s_core s)) mod k = 0) by (apply grid_shift; auto).
  assert (Hleast : forall g, (g - c_start (s_core s)) mod k = 0 -> p < g -> p + k <= g).
  { intros g Hgg Hlt. destruct (grid_next (c_start (s_core s)) k p Hpos) as (_ & _ & Hl).
    specialize (Hl g Hgg Hlt). rewrite Hgp in Hl. lia. }
  destruct (in_bounds s (p + k)) as [r0|] eqn:Eb.
  - apply in_bounds_some in Eb. destruct Eb as (-> & Hlo & Hhi).
    destruct (excluded s (p + k)) eqn:Ex.
    + intros H. eapply (least_gt_skip s k p (p + k)); eauto; [lia|]. apply IH; [exact Hg|lia|exact H].
    + intros [= <-]. eapply least_gt_hit; eauto. lia.
  - intros [= <-]. apply in_bounds_none in Eb. destruct Eb as [Hlo|Hhi].
    + exfalso. lia.
    + eapply least_gt_none; eauto.
Qed.

Lemma nos_oneoff fuel s p : oneoff s -> fuel <> O -> get_next_point_on_sequence fuel s p = Ok None.
Proof.
  intros Ho Hf. destruct fuel as [|fl]; [congruence|]. cbn. unfold oneoff in Ho. rewrite Ho. reflexivity.
Qed.

(* fuel: with a stop point, (stop - p) + 1 units always suffice; neither
   function ever raises *)
Lemma next_no_error fuel s p e : get_next_point fuel s p = Err e -> e = EFuel.
Proof.
  revert p. induction fuel as [|fl IH]; intros p; cbn [get_next_point]; [intros [= <-]; reflexivity|].
  destruct (truthy_step (c_step (s_core s))) as [k|].
  - destruct (in_bounds s _) as [r0|]; [|discriminate].
    destruct (excluded s r0); [apply IH|discriminate].
  - destruct (p <? c_start (s_core s)); discriminate.
Qed.

Lemma nos_no_error fuel s p e : get_next_point_on_sequence fuel s p = Err e -> e = EFuel.
Proof.
  revert p. induction fuel as [|fl IH]; intros p; cbn [get_next_point_on_sequence]; [intros [= <-]; reflexivity|].
  destruct (truthy_step (c_step (s_core s))) as [k|]; [|discriminate].
  destruct (in_bounds s _) as [r0|]; [|discriminate].
  destruct (excluded s r0); [apply IH|discriminate].
Qed.

Lemma next_fuel fuel s k p e :
  stepped s k -> c_stop (s_core s) = Some e -> Z.max 0 (e - p) < Z.of_nat fuel ->
  get_next_point fuel s p <> Err EFuel.
Proof.
  intros [Hk Hpos] He. revert p. induction fuel as [|fl IH]; intros p Hf; cbn [get_next_point]; [lia|].
  rewrite Hk. destruct (grid_next (c_start (s_core s)) k p Hpos) as (_ & Hlt & _).
  set (nxt := p + k - (p - c_start (s_core s)) mod k) in *.
  destruct (in_bounds s nxt) as [r0|] eqn:Eb; [|discriminate].
  apply in_bounds_some in Eb. destruct Eb as (-> & _ & Hhi). specialize (Hhi e He).
  destruct (excluded s nxt); [|discriminate]. apply IH. lia.
Qed.

(* ================================================================== *)
(* 5. get_prev_point                                                   *)
(* ================================================================== *)
Lemma excluded_opt_some s r : excluded_opt s (Some r) = excluded s r.
Proof. unfold excluded_opt, excluded. destruct (s_excl s); reflexivity. Qed.

(* `None in self.exclusions` is False *)
Lemma excluded_opt_none s : excluded_opt s None = false.
Proof. unfold excluded_opt. destruct (s_excl s); reflexivity. Qed.

Lemma greatest_lt_skip s k p prev r :
  truthy_step (c_step (s_core s)) = Some k -> 0 < k ->
  prev < p ->
  (forall g, (g - c_start (s_core s)) mod k = 0 -> g < p -> g <= prev) ->
  excluded s prev = true ->
  is_greatest_lt (seq_member s) prev r -> is_greatest_lt (seq_member s) p r.
Proof.
  intros Hk Hpos Hlt Hgreat Hex Hr.
  assert (Hnot : ~ seq_member s prev).
  { rewrite (member_stepped s k prev Hk). intros (_ & _ & _ & E). congruence. }
  destruct r as [m|]; cbn in *.
  - destruct Hr as (Hm & Hgt & Hmax). split; [exact Hm|split; [lia|]].
    intros m' Hm' Hpm'. apply Hmax; [exact Hm'|].
    pose proof Hm' as Hm''. rewrite (member_stepped s k m' Hk) in Hm''.
    destruct Hm'' as (_ & _ & Hg & _). specialize (Hgreat m' Hg Hpm').
    destruct (Z.eq_dec m' prev) as [->|]; [contradiction|lia].
  - intros m' Hm'. destruct (Z.le_gt_cases p m') as [|Hgt]; [assumption|].
    pose proof Hm' as Hm''. rewrite (member_stepped s k m' Hk) in Hm''.
    destruct Hm'' as (_ & _ & Hg & _). specialize (Hgreat m' Hg ltac:(lia)).
    specialize (Hr m' Hm'). assert (m' = prev) by lia. subst. contradiction.
Qed.

Lemma prev_stepped fuel s k p r :
  stepped s k -> stop_on_grid s k ->
  (forall e, c_stop (s_core s) = Some e -> p <= e + k) ->
  get_prev_point fuel s p = Ok r -> is_greatest_lt (seq_member s) p r.
Proof.
  intros [Hk Hpos] Hsg. revert p r.
  induction fuel as [|fl IH]; intros p r Hp; cbn [get_prev_point]; [discriminate|].
  rewrite Hk.
  destruct (grid_prev (c_start (s_core s)) k p Hpos) as (Hg & Hlt & Hgreat).
  set (prev := if (p - c_start (s_core s)) mod k =? 0 then p - k
               else p - (p - c_start (s_core s)) mod k) in *.
  destruct (in_bounds s prev) as [r0|] eqn:Eb.
  - apply in_bounds_some in Eb. destruct Eb as (-> & Hlo & Hhi).
    rewrite excluded_opt_some.
    destruct (excluded s prev) eqn:Ex.
    + intros H. eapply greatest_lt_skip; eauto. apply IH; [|exact H].
      intros e He. specialize (Hhi e He). lia.
    + intros [= <-]. cbn. split; [|split; [exact Hlt|]].
      * apply (member_stepped s k prev Hk). auto.
      * intros m' Hm' Hpm'. rewrite (member_stepped s k m' Hk) in Hm'.
        destruct Hm' as (_ & _ & Hgm & _). auto.
  - rewrite excluded_opt_none. intros [= <-]. cbn.
    intros m' Hm'. rewrite (member_stepped s k m' Hk) in Hm'.
    destruct Hm' as (Hlo' & Hhi' & Hgm & _).
    destruct (Z.le_gt_cases p m') as [|Hgt]; [assumption|exfalso].
    specialize (Hgreat m' Hgm ltac:(lia)).
    apply in_bounds_none in Eb. destruct Eb as [Hlo|[e [He Hhi]]]; [lia|].
    specialize (Hp e He). specialize (Hsg e He).
    assert ((prev - e) mod k = 0) by (apply (grid_trans (c_start (s_core s)) e k prev Hpos Hsg); exact Hg).
    assert (prev <= e) by (eapply grid_le; eauto; lia). lia.
Qed.

Lemma prev_oneoff fuel s p : oneoff s -> fuel <> O -> get_prev_point fuel s p = Ok None.
Proof.
  intros Ho Hf. destruct fuel as [|fl]; [congruence|]. cbn. unfold oneoff in Ho. rewrite Ho. reflexivity.
Qed.

(* get_prev_point never raises *)
Lemma prev_no_error fuel s p e : get_prev_point fuel s p = Err e -> e = EFuel.
Proof.
  revert p. induction fuel as [|fl IH]; intros p; cbn [get_prev_point]; [intros [= <-]; auto|].
  destruct (truthy_step (c_step (s_core s))) as [k|]; [|discriminate].
  destruct (excluded_opt s _); [|discriminate].
  destruct (in_bounds s _); [apply IH|discriminate].
Qed.

Lemma prev_fuel fuel s k p :
  stepped s k -> Z.max 0 (p - c_start (s_core s)) < Z.of_nat fuel ->
  get_prev_point fuel s p <> Err EFuel.
Proof.
  intros [Hk Hpos]. revert p. induction fuel as [|fl IH]; intros p Hf; cbn [get_prev_point]; [lia|].
  rewrite Hk. destruct (grid_prev (c_start (s_core s)) k p Hpos) as (_ & Hlt & _).
  set (prev := if (p - c_start (s_core s)) mod k =? 0 then p - k
               else p - (p - c_start (s_core s)) mod k) in *.
  destruct (excluded_opt s (in_bounds s prev)); [|discriminate].
  destruct (in_bounds s prev) as [r0|] eqn:Eb; [|discriminate].
  apply in_bounds_some in Eb. destruct Eb as (-> & Hlo & _). apply IH. lia.
Qed.

(* below the start point there is nothing *)
Lemma prev_at_start fuel s r :
  (exists k, stepped s k) \/ oneoff s ->
  get_prev_point fuel s (c_start (s_core s)) = Ok r -> r = None.
Proof.
  intros Hreg. destruct fuel as [|fl]; cbn [get_prev_point]; [discriminate|].
  destruct Hreg as [[k [Hk Hpos]]|Ho].
  - rewrite Hk. rewrite Z.sub_diag, Z.mod_0_l by lia. cbn [Z.eqb].
    assert (Eb : in_bounds s (c_start (s_core s) - k) = None).
    { unfold in_bounds, in_bounds_core.
      replace (c_start (s_core s) <=? c_start (s_core s) - k) with false by lia. reflexivity. }
    rewrite Eb, excluded_opt_none. intros [= <-]. reflexivity.
  - unfold oneoff in Ho. rewrite Ho. intros [= <-]. reflexivity.
Qed.

(* ================================================================== *)
(* 6. get_first_point, get_start_point, get_stop_point                 *)
(* ================================================================== *)
Definition regular (s : seq) : Prop := (exists k, stepped s k) \/ oneoff s.

Lemma member_on_sequence s p : seq_member s p -> is_on_sequence s p = true.
Proof.
  intros H. apply is_valid_iff in H. unfold is_valid in H.
  destruct (is_on_sequence s p); [reflexivity|discriminate].
Qed.

Lemma member_ge_start s p : seq_member s p -> c_start (s_core s) <= p.
Proof. intros [[H _] _]. exact H. Qed.

Lemma member_le_stop s p e : seq_member s p -> c_stop (s_core s) = Some e -> p <= e.
Proof. intros [(_ & H & _) _]. apply H. Qed.

Lemma member_not_excluded s p : seq_member s p -> excluded s p = false.
Proof. intros [_ H]. apply excluded_false_iff. exact H. Qed.

Lemma start_member s :
  regular s -> (forall e, c_stop (s_core s) = Some e -> c_start (s_core s) <= e) ->
  excluded s (c_start (s_core s)) = false -> seq_member s (c_start (s_core s)).
Proof.
  intros [[k [Hk Hpos]]|Ho] Hne Hex.
  - apply (member_stepped s k _ Hk). repeat split; auto; try lia.
    rewrite Z.sub_diag. apply Z.mod_0_l. lia.
  - apply (member_oneoff s _ Ho). auto.
Qed.

Lemma next_regular fuel s x r :
  regular s -> c_start (s_core s) <= x ->
  get_next_point fuel s x = Ok r -> is_least_gt (seq_member s) x r.
Proof.
  intros [[k Hs]|Ho] Hx H.
  - eapply next_stepped; eauto. destruct Hs. lia.
  - eapply next_oneoff; eauto. lia.
Qed.

Lemma nos_start_regular fuel s r :
  regular s ->
  get_next_point_on_sequence fuel s (c_start (s_core s)) = Ok r ->
  is_least_gt (seq_member s) (c_start (s_core s)) r.
Proof.
  intros [[k Hs]|Ho] H.
  - eapply nos_stepped; eauto; destruct Hs as [_ Hpos]; [|lia].
    rewrite Z.sub_diag. apply Z.mod_0_l. lia.
  - destruct fuel as [|fl]; [discriminate|]. rewrite nos_oneoff in H by (auto; discriminate).
    injection H as <-. cbn. intros m' Hm'. apply (member_oneoff s m' Ho) in Hm'. lia.
Qed.

(* after skipping an excluded start point *)
Lemma least_ge_from_start s p r :
  p <= c_start (s_core s) -> excluded s (c_start (s_core s)) = true ->
  is_least_gt (seq_member s) (c_start (s_core s)) r -> is_least_ge (seq_member s) p r.
Proof.
  intros Hp Hex Hr.
  assert (Hne : forall m', seq_member s m' -> c_start (s_core s) < m').
  { intros m' Hm'. pose proof (member_ge_start s m' Hm').
    destruct (Z.eq_dec m' (c_start (s_core s))) as [->|]; [|lia].
    apply member_not_excluded in Hm'. congruence. }
  destruct r as [m|]; cbn in *.
  - destruct Hr as (Hm & Hgt & Hmin). split; [exact Hm|split; [lia|]].
    intros m' Hm' _. apply Hmin; auto.
  - intros m' Hm'. specialize (Hr m' Hm'). specialize (Hne m' Hm'). lia.
Qed.

Lemma first_regular fuel s p r :
  regular s -> get_first_point fuel s p = Ok r -> is_least_ge (seq_member s) p r.
Proof.
  intros Hreg. unfold get_first_point.
  destruct (p <=? c_start (s_core s)) eqn:Ep.
  - cbn [bind]. destruct (in_bounds s (c_start (s_core s))) as [r0|] eqn:Eb.
    + apply in_bounds_some in Eb. destruct Eb as (-> & _ & Hhi).
      destruct (excluded s (c_start (s_core s))) eqn:Ex.
      * intros H. eapply least_ge_from_start; eauto; [lia|]. eapply nos_start_regular; eauto.
      * intros [= <-]. cbn. split; [|split; [lia|]].
        -- apply start_member; auto.
        -- intros m' Hm' _. apply member_ge_start; auto.
    + intros [= <-]. cbn. intros m' Hm'. exfalso.
      apply in_bounds_none in Eb. destruct Eb as [|[e [He Hlt]]]; [lia|].
      pose proof (member_ge_start s m' Hm'). pose proof (member_le_stop s m' e Hm' He). lia.
  - destruct (is_on_sequence s p) eqn:Eon.
    + cbn [bind]. destruct (in_bounds s p) as [r0|] eqn:Eb.
      * apply in_bounds_some in Eb. destruct Eb as (-> & Hlo & Hhi).
        assert (Hex : excluded s p = false).
        { unfold is_on_sequence in Eon. destruct (excluded s p); [discriminate|reflexivity]. }
        rewrite Hex. intros [= <-]. cbn. split; [|split; [lia|auto]].
        apply is_valid_iff. unfold is_valid. rewrite Eon. cbn.
        destruct (c_stop (s_core s)) as [e|]; [specialize (Hhi e eq_refl)|]; lia.
      * intros [= <-]. cbn. intros m' Hm'.
        apply in_bounds_none in Eb. destruct Eb as [|[e [He Hlt]]]; [lia|].
        pose proof (member_le_stop s m' e Hm' He). lia.
    + assert (Hnp : ~ seq_member s p).
      { intros Hm. apply member_on_sequence in Hm. congruence. }
      destruct (get_next_point fuel s p) as [pt|er] eqn:En; cbn [bind]; [|discriminate].
      apply next_regular in En; [|exact Hreg|lia].
      destruct pt as [m|]; cbn in En.
      * destruct En as (Hm & Hgt & Hmin). rewrite (member_not_excluded s m Hm).
        intros [= <-]. cbn. split; [exact Hm|split; [lia|]].
        intros m' Hm' Hge. apply Hmin; [exact Hm'|].
        destruct (Z.eq_dec m' p) as [->|]; [contradiction|lia].
      * intros [= <-]. cbn. intros m' Hm'. specialize (En m' Hm').
        destruct (Z.eq_dec m' p) as [->|]; [contradiction|lia].
Qed.

Lemma start_regular fuel s r :
  regular s -> (forall e, c_stop (s_core s) = Some e -> c_start (s_core s) <= e) ->
  get_start_point fuel s = Ok r -> is_min (seq_member s) r.
Proof.
  intros Hreg Hne. unfold get_start_point.
  destruct (excluded s (c_start (s_core s))) eqn:Ex.
  - intros H. apply nos_start_regular in H; [|exact Hreg].
    apply (least_ge_from_start s (c_start (s_core s))) in H; [|lia|exact Ex].
    destruct r as [m|]; cbn in *.
    + destruct H as (Hm & _ & Hmin). split; [exact Hm|].
      intros m' Hm'. apply Hmin; [exact Hm'|apply member_ge_start; auto].
    + intros m' Hm'. specialize (H m' Hm'). pose proof (member_ge_start s m' Hm'). lia.
  - intros [= <-]. cbn. split; [apply start_member; auto|].
    intros m' Hm'. apply member_ge_start; auto.
Qed.

Lemma stop_stepped fuel s k e r :
  stepped s k -> stop_on_grid s k -> c_stop (s_core s) = Some e -> c_start (s_core s) <= e ->
  get_stop_point fuel s = Ok r -> is_max (seq_member s) r.
Proof.
  intros Hs Hsg He Hne. unfold get_stop_point. rewrite He, excluded_opt_some.
  destruct (excluded s e) eqn:Ex.
  - intros H. apply (prev_stepped fuel s k e r Hs Hsg) in H.
    2:{ intros e' He'. rewrite He in He'. injection He' as <-. destruct Hs. lia. }
    assert (Hlt : forall m', seq_member s m' -> m' < e).
    { intros m' Hm'. pose proof (member_le_stop s m' e Hm' He).
      destruct (Z.eq_dec m' e) as [->|]; [|lia].
      apply member_not_excluded in Hm'. congruence. }
    destruct r as [m|]; cbn in *.
    + destruct H as (Hm & _ & Hmax). split; [exact Hm|]. intros m' Hm'. apply Hmax; auto.
    + intros m' Hm'. specialize (H m' Hm'). specialize (Hlt m' Hm'). lia.
  - intros [= <-]. cbn. split.
    + destruct Hs as [Hk Hpos]. apply (member_stepped s k e Hk). repeat split; auto.
      intros e' He'. rewrite He in He'. injection He' as <-. lia.
    + intros m' Hm'. eapply member_le_stop; eauto.
Qed.

Lemma stop_oneoff fuel s r :
  oneoff s -> c_stop (s_core s) = Some (c_start (s_core s)) ->
  get_stop_point fuel s = Ok r -> is_max (seq_member s) r.
Proof.
  intros Ho He. unfold get_stop_point. rewrite He, excluded_opt_some.
  destruct (excluded s (c_start (s_core s))) eqn:Ex.
  - destruct fuel as [|fl]; [discriminate|]. rewrite prev_oneoff by (auto; discriminate).
    intros [= <-]. cbn. intros m' Hm'. pose proof (member_not_excluded s m' Hm').
    apply (member_oneoff s m' Ho) in Hm'. destruct Hm' as (-> & _). congruence.
  - intros [= <-]. cbn. split.
    + apply start_member; [right; exact Ho| |exact Ex].
      intros e' He'. rewrite He in He'. injection He' as <-. lia.
    + intros m' Hm'. apply (member_oneoff s m' Ho) in Hm'. lia.
Qed.

Lemma stop_unbounded fuel s r :
  c_stop (s_core s) = None -> get_stop_point fuel s = Ok r -> r = None.
Proof.
  intros He. unfold get_stop_point. rewrite He, excluded_opt_none. intros [= <-]. reflexivity.
Qed.

(* ================================================================== *)
(* 7. get_nearest_prev_point                                           *)
(* ================================================================== *)
(* the while loop, once it holds a previous point y: it ends with the greatest
   element <= p among y and the members *)
Lemma nprev_loop_some fuel s p sp y r :
  regular s -> c_start (s_core s) <= y -> y <= p ->
  is_least_gt (seq_member s) y sp ->
  nprev_loop fuel s p sp (Some y) = Ok r ->
  exists y', r = Some y' /\ y' <= p /\ (y' = y \/ seq_member s y') /\
             forall m', seq_member s m' -> m' <= p -> m' <= y'.
Proof.
  intros Hreg. revert sp y r.
  induction fuel as [|fl IH]; intros sp y r Hay Hyp Hsp; cbn [nprev_loop]; [discriminate|].
  destruct sp as [x|].
  - cbn in Hsp. destruct Hsp as (Hx & Hyx & Hmin).
    destruct (x >? p) eqn:Exp.
    + intros [= <-]. exists y. repeat split; auto.
      intros m' Hm' Hle. destruct (Z.le_gt_cases m' y) as [|Hgt]; [assumption|].
      specialize (Hmin m' Hm' Hgt). lia.
    + destruct (get_next_point (S fl) s x) as [nx|er] eqn:En; cbn [bind]; [|discriminate].
      apply next_regular in En; [|exact Hreg|lia].
      intros H. apply IH in H; [|lia|lia|exact En].
      destruct H as (y' & -> & Hle & Hor & Hall). exists y'. repeat split; auto.
      right. destruct Hor as [->|]; assumption.
  - intros [= <-]. exists y. repeat split; auto.
Qed.

Lemma nprev_off fuel s p r :
  regular s -> is_on_sequence s p = false ->
  get_nearest_prev_point fuel s p = Ok r -> is_greatest_lt (seq_member s) p r.
Proof.
  intros Hreg Hoff. unfold get_nearest_prev_point. rewrite Hoff.
  assert (Hnp : ~ seq_member s p).
  { intros Hm. apply member_on_sequence in Hm. congruence. }
  destruct (nprev_loop fuel s p (in_bounds s (c_start (s_core s))) None) as [prev|er] eqn:El;
    cbn [bind]; [|discriminate].
  destruct fuel as [|fl]; [discriminate|]. cbn [nprev_loop] in El.
  destruct (in_bounds s (c_start (s_core s))) as [a0|] eqn:Eb.
  - apply in_bounds_some in Eb. destruct Eb as (-> & _ & Hhi).
    destruct (c_start (s_core s) >? p) eqn:Eap.
    + injection El as <-. rewrite excluded_opt_none. intros [= <-]. cbn.
      intros m' Hm'. pose proof (member_ge_start s m' Hm'). lia.
    + destruct (get_next_point (S fl) s (c_start (s_core s))) as [nx|er] eqn:En; cbn [bind] in El; [|discriminate].
      apply next_regular in En; [|exact Hreg|lia].
      apply nprev_loop_some in El; [|exact Hreg|lia|lia|exact En].
      destruct El as (y & -> & Hyp & Hor & Hall).
      rewrite excluded_opt_some.
      destruct (excluded s y) eqn:Ex.
      * (* only the start point itself can be an excluded previous point:
           the answer is get_prev_point(start) = None, and indeed nothing is left *)
        assert (Hy : y = c_start (s_core s)).
        { destruct Hor as [|Hm]; [assumption|]. apply member_not_excluded in Hm. congruence. }
        subst y. intros H. apply prev_at_start in H; [|exact Hreg]. subst r. cbn.
        intros m' Hm'. destruct (Z.le_gt_cases p m') as [|Hgt]; [assumption|exfalso].
        specialize (Hall m' Hm' ltac:(lia)). pose proof (member_ge_start s m' Hm').
        assert (m' = c_start (s_core s)) by lia. subst m'.
        apply member_not_excluded in Hm'. congruence.
      * intros [= <-]. cbn.
        assert (Hmy : seq_member s y).
        { destruct Hor as [->|]; [|assumption]. apply start_member; auto. }
        split; [exact Hmy|split].
        -- destruct (Z.eq_dec y p) as [->|]; [contradiction|lia].
        -- intros m' Hm' Hl. apply Hall; [exact Hm'|lia].
  - injection El as <-. rewrite excluded_opt_none. intros [= <-]. cbn.
    intros m' Hm'. exfalso. apply in_bounds_none in Eb. destruct Eb as [|[e [He Hlt]]]; [lia|].
    pose proof (member_ge_start s m' Hm'). pose proof (member_le_stop s m' e Hm' He). lia.
Qed.

Lemma nprev_on fuel s p :
  is_on_sequence s p = true -> get_nearest_prev_point fuel s p = get_prev_point fuel s p.
Proof. intros H. unfold get_nearest_prev_point. rewrite H. reflexivity. Qed.

Lemma nprev_stepped fuel s k p r :
  stepped s k -> stop_on_grid s k ->
  (is_on_sequence s p = true -> forall e, c_stop (s_core s) = Some e -> p <= e + k) ->
  get_nearest_prev_point fuel s p = Ok r -> is_greatest_lt (seq_member s) p r.
Proof.
  intros Hs Hsg Hp. destruct (is_on_sequence s p) eqn:Eon.
  - rewrite nprev_on by exact Eon. apply (prev_stepped fuel s k p r); auto.
  - apply nprev_off; [left; eauto|exact Eon].
Qed.

Lemma nprev_oneoff fuel s p r :
  oneoff s -> get_nearest_prev_point fuel s p = Ok r -> is_greatest_lt (seq_member s) p r.
Proof.
  intros Ho. destruct (is_on_sequence s p) eqn:Eon.
  - rewrite nprev_on by exact Eon. destruct fuel as [|fl]; [discriminate|].
    rewrite prev_oneoff by (auto; discriminate). intros [= <-]. cbn.
    unfold is_on_sequence, on_seq_core in Eon. unfold oneoff in Ho. rewrite Ho in Eon.
    destruct (excluded s p); [discriminate|].
    intros m' Hm'. apply (member_oneoff s m' Ho) in Hm'. lia.
  - apply nprev_off; [right; exact Ho|exact Eon].
Qed.

(* get_nearest_prev_point never raises either *)
Lemma nprev_loop_no_error fuel s p sp prev e : nprev_loop fuel s p sp prev = Err e -> e = EFuel.
Proof.
  revert sp prev. induction fuel as [|fl IH]; intros sp prev; cbn [nprev_loop]; [intros [= <-]; auto|].
  destruct sp as [x|]; [|discriminate]. destruct (x >? p); [discriminate|].
  destruct (get_next_point (S fl) s x) as [nx|er] eqn:En; cbn [bind].
  - apply IH.
  - intros [= <-]. eapply next_no_error; eauto.
Qed.

Lemma nprev_no_error fuel s p e : get_nearest_prev_point fuel s p = Err e -> e = EFuel.
Proof.
  unfold get_nearest_prev_point. destruct (is_on_sequence s p); [apply prev_no_error|].
  destruct (nprev_loop fuel s p _ None) as [prev|er] eqn:El; cbn [bind].
  - destruct (excluded_opt s prev); [|discriminate].
    destruct prev; [apply prev_no_error|discriminate].
  - intros [= <-]. eapply nprev_loop_no_error; eauto.
Qed.

Lemma stop_no_error fuel s e : get_stop_point fuel s = Err e -> e = EFuel.
Proof.
  unfold get_stop_point. destruct (excluded_opt s _); [|discriminate].
  destruct (c_stop (s_core s)); [apply prev_no_error|discriminate].
Qed.

(* ================================================================== *)
(* 8. what a recurrence form means: the clipped progression            *)
(* ================================================================== *)
(* START defaults to / is relative to the initial point *)
Definition resolve (e : option pexpr) (ctx : Z) : Z :=
  match e with None => ctx | Some (Abs v) => v | Some (Rel j) => ctx + j end.

(* END defaults to / is relative to the final point, which may be missing *)
Definition end_point (e : option pexpr) (ce : option Z) : option Z :=
  match e, ce with
  | Some (Abs v), _ => Some v
  | Some (Rel j), Some F => Some (F + j)
  | None, Some F => Some F
  | _, None => None
  end.

Inductive shape :=
| OneOff (a : Z)                      (* a single point *)
| Up (a k : Z) (n : option Z)         (* a, a+k, a+2k, ... (n terms when given) *)
| Down (e k : Z) (n : option Z).      (* e, e-k, e-2k, ... (n terms when given) *)

Definition prog (sh : shape) (p : Z) : Prop :=
  match sh with
  | OneOff a => p = a
  | Up a k n => exists i, 0 <= i /\ p = a + i * k /\ forall m, n = Some m -> i < m
  | Down e k n => exists i, 0 <= i /\ p = e - i * k /\ forall m, n = Some m -> i < m
  end.

Definition in_ctx (cs : Z) (ce : option Z) (p : Z) : Prop :=
  cs <= p /\ forall F, ce = Some F -> p <= F.

(* the progression each recurrence form defines (format_num meanings of the
   source: 1 = run n times between START and END, 3 = start at START and keep
   adding INTV, 4 = start at END and keep subtracting INTV); None = the form
   has no meaning here (missing final point, R//END, uneven Rn/START/END) *)
Definition shape_of (f : form) (cs : Z) (ce : option Z) : option shape :=
  if f_fmt f =? 3 then
    let a := resolve (f_start f) cs in
    match f_intv f, f_reps f with
    | None, _ => Some (OneOff a)
    | Some k, Some n => if n =? 1 then Some (OneOff a) else Some (Up a k (Some n))
    | Some k, None => Some (Up a k None)
    end
  else if f_fmt f =? 4 then
    match end_point (f_end f) ce with
    | None => None
    | Some e =>
        match f_reps f, f_intv f with
        | Some n, Some k => if n =? 1 then Some (OneOff e) else Some (Down e k (Some n))
        | Some n, None => if n =? 1 then Some (OneOff e) else None
        | None, Some k => Some (Down e k None)
        | None, None => None
        end
    end
  else if f_fmt f =? 1 then
    match f_reps f, end_point (f_end f) ce with
    | Some n, Some e =>
        let a := resolve (f_start f) cs in
        if n =? 1 then Some (OneOff a)
        else if (1 <? n) && (a <? e) && ((e - a) mod (n - 1) =? 0)
             then Some (Up a ((e - a) / (n - 1)) (Some n))
             else None
    | _, _ => None
    end
  else None.

(* the points of the recurrence: its progression within [initial, final] *)
Definition denote0 (f : form) (cs : Z) (ce : option Z) (p : Z) : Prop :=
  exists sh, shape_of f cs ce = Some sh /\ prog sh p /\ in_ctx cs ce p.

(* the dispatch never fills START for format 4 nor END for format 3 *)
Definition wf_form (f : form) : Prop :=
  (f_fmt f = 3 -> f_end f = None) /\ (f_fmt f = 4 -> f_start f = None).

(* Inputs outside the defect classes of the constructor (side conditions
   k >= 1, n >= 2 for a repeated progression included):
   - a one-off point lies within the context (one-offs are not clipped);
   - an upward progression starts at or after the initial point (the start
     clipping arithmetic is wrong) and, when n is given, its last term is at
     or before the final point (the stop clipping arithmetic is wrong);
   - a downward progression with n terms: first term at or after the initial
     point, END at or before the final point;
   - a downward progression without n: END is the final point (the code takes
     the phase from the context, not from END). *)
Definition sane (sh : shape) (cs : Z) (ce : option Z) : Prop :=
  match sh with
  | OneOff a => in_ctx cs ce a
  | Up a k n =>
      0 < k /\ cs <= a /\
      forall m, n = Some m -> 2 <= m /\ forall F, ce = Some F -> a + (m - 1) * k <= F
  | Down e k (Some m) =>
      0 < k /\ 2 <= m /\ cs <= e - (m - 1) * k /\ forall F, ce = Some F -> e <= F
  | Down e k None => 0 < k /\ ce = Some e
  end.

(* first and last point of the clipped progression (last = None: unbounded);
   they are the context given to exclusion sequences *)
Definition bounds (sh : shape) (cs : Z) (ce : option Z) : Z * option Z :=
  match sh with
  | OneOff a => (a, Some a)
  | Up a k None => (a, match ce with Some F => Some (F - (F - a) mod k) | None => None end)
  | Up a k (Some m) => (a, Some (a + (m - 1) * k))
  | Down e k (Some m) => (e - (m - 1) * k, Some e)
  | Down e k None => (cs + (e - cs) mod k, Some e)
  end.

Definition core_regular (c : core) : Prop :=
  (exists k, truthy_step (c_step c) = Some k /\ 0 < k /\
             forall e, c_stop c = Some e -> (e - c_start c) mod k = 0)
  \/ (truthy_step (c_step c) = None /\ c_stop c = Some (c_start c)).

Definition step_of (sh : shape) : option Z :=
  match sh with OneOff _ => None | Up _ k _ | Down _ k _ => Some k end.

Definition core_ok (c : core) (sh : shape) (cs : Z) (ce : option Z) : Prop :=
  (forall p, core_member c p <-> prog sh p /\ in_ctx cs ce p) /\
  (c_start c, c_stop c) = bounds sh cs ce /\ core_regular c /\
  truthy_step (c_step c) = step_of sh.

Lemma pfe_start e cs b : point_from_expr e (Some cs) b = Ok (Some (resolve e cs)).
Proof. destruct e as [[v|j]|]; reflexivity. Qed.

Lemma pfe_end e ce v b : end_point e ce = Some v -> point_from_expr e ce b = Ok (Some v).
Proof.
  destruct e as [[v'|j]|], ce as [F|]; cbn; intros [= <-]; reflexivity || discriminate.
Qed.

Lemma pfe_none ce : point_from_expr None ce false = Ok ce.
Proof. destruct ce; reflexivity. Qed.

Lemma truthy_pos k : 0 < k -> truthy_step (Some k) = Some k.
Proof. intros H. unfold truthy_step. destruct (k =? 0) eqn:E; [lia|reflexivity]. Qed.

(* members of a regular stepped core, in grid form *)
Lemma core_member_stepped st sp k p :
  0 < k ->
  (core_member {| c_start := st; c_stop := sp; c_step := Some k |} p <->
   st <= p /\ (forall e, sp = Some e -> p <= e) /\ exists i, p = st + i * k).
Proof. intros Hk. unfold core_member. cbn [c_start c_stop c_step]. rewrite truthy_pos by exact Hk. tauto. Qed.

Lemma core_member_oneoff a p :
  core_member {| c_start := a; c_stop := Some a; c_step := None |} p <-> p = a.
Proof.
  unfold core_member. cbn. split; [intros (_ & _ & H); exact H|].
  intros ->. repeat split; try lia. intros e [= <-]. lia.
Qed.

Lemma oneoff_ok a cs ce :
  in_ctx cs ce a -> core_ok {| c_start := a; c_stop := Some a; c_step := None |} (OneOff a) cs ce.
Proof.
  intros Hc. split; [|split; [reflexivity|split; [right; split; reflexivity|reflexivity]]].
  intros p. rewrite core_member_oneoff. cbn. split; [intros ->; auto|tauto].
Qed.

(* ---------- the four stepped shapes, as states ---------- *)
Lemma up_inf_ok a k cs ce :
  0 < k -> cs <= a ->
  core_ok {| c_start := a;
             c_stop := match ce with Some F => Some (F - (F - a) mod k) | None => None end;
             c_step := Some k |} (Up a k None) cs ce.
Proof.
  intros Hk Ha. split; [|split; [reflexivity|split; [|cbn [c_step step_of]; apply truthy_pos; exact Hk]]].
  - intros p. rewrite core_member_stepped by exact Hk. cbn [prog]. unfold in_ctx.
    destruct ce as [F|].
    + pose proof (Z.mod_pos_bound (F - a) k Hk) as Hb.
      pose proof (Z.div_mod (F - a) k ltac:(lia)) as Hd.
      split.
      * intros (H1 & H2 & [i ->]). specialize (H2 _ eq_refl).
        split; [exists i; repeat split; [nia|discriminate]|].
        split; [lia|]. intros F' [= <-]. lia.
      * intros [[i (Hi & -> & _)] [H1 H2]]. specialize (H2 _ eq_refl).
        split; [nia|]. split; [|exists i; reflexivity].
        intros e [= <-]. assert (i <= (F - a) / k) by nia. nia.
    + split.
      * intros (H1 & _ & [i ->]). split; [exists i; repeat split; [nia|discriminate]|].
        split; [lia|discriminate].
      * intros [[i (Hi & -> & _)] [H1 _]]. split; [nia|]. split; [discriminate|exists i; reflexivity].
  - left. exists k. cbn [c_start c_stop c_step]. rewrite truthy_pos by exact Hk.
    split; [reflexivity|split; [exact Hk|]]. intros e He. destruct ce as [F|]; [|discriminate].
    injection He as <-.
    pose proof (Z.div_mod (F - a) k ltac:(lia)) as Hd.
    replace (F - (F - a) mod k - a) with (((F - a) / k) * k) by lia. apply Z.mod_mul. lia.
Qed.

Lemma up_n_ok a k m cs ce :
  0 < k -> cs <= a -> 2 <= m -> (forall F, ce = Some F -> a + (m - 1) * k <= F) ->
  core_ok {| c_start := a; c_stop := Some (a + k * (m - 1)); c_step := Some k |}
          (Up a k (Some m)) cs ce.
Proof.
  intros Hk Ha Hm HF. split; [|split; [|split; [|cbn [c_step step_of]; apply truthy_pos; exact Hk]]].
  - intros p. rewrite core_member_stepped by exact Hk. cbn [prog]. unfold in_ctx. split.
    + intros (H1 & H2 & [i ->]). specialize (H2 _ eq_refl).
      split; [exists i; repeat split; [nia|]|].
      * intros m' [= <-]. nia.
      * split; [lia|]. intros F HFe. specialize (HF F HFe). nia.
    + intros [[i (Hi & -> & Hlt)] [H1 H2]]. specialize (Hlt m eq_refl).
      split; [nia|]. split; [|exists i; reflexivity]. intros e [= <-]. nia.
  - cbn [bounds c_start c_stop]. f_equal. f_equal. lia.
  - left. exists k. cbn [c_start c_stop c_step]. rewrite truthy_pos by exact Hk.
    split; [reflexivity|split; [exact Hk|]]. intros e [= <-].
    replace (a + k * (m - 1) - a) with ((m - 1) * k) by lia. apply Z.mod_mul. lia.
Qed.

Lemma down_n_ok e k m cs ce :
  0 < k -> 2 <= m -> cs <= e - (m - 1) * k -> (forall F, ce = Some F -> e <= F) ->
  core_ok {| c_start := e - k * (m - 1); c_stop := Some e; c_step := Some k |}
          (Down e k (Some m)) cs ce.
Proof.
  intros Hk Hm Hs HF. split; [|split; [|split; [|cbn [c_step step_of]; apply truthy_pos; exact Hk]]].
  - intros p. rewrite core_member_stepped by exact Hk. cbn [prog]. unfold in_ctx. split.
    + intros (H1 & H2 & [i ->]). specialize (H2 _ eq_refl).
      split; [exists (m - 1 - i); repeat split; [nia|lia|]|].
      * intros m' [= <-]. nia.
      * split; [nia|]. intros F HFe. specialize (HF F HFe). lia.
    + intros [[i (Hi & -> & Hlt)] [H1 H2]]. specialize (Hlt m eq_refl).
      split; [nia|]. split; [|exists (m - 1 - i); lia]. intros e' [= <-]. nia.
  - cbn [bounds c_start c_stop]. f_equal. lia.
  - left. exists k. cbn [c_start c_stop c_step]. rewrite truthy_pos by exact Hk.
    split; [reflexivity|split; [exact Hk|]]. intros e' [= <-].
    replace (e - (e - k * (m - 1))) with ((m - 1) * k) by lia. apply Z.mod_mul. lia.
Qed.

Lemma down_inf_ok e k cs :
  0 < k ->
  core_ok {| c_start := cs + (e - cs) mod k; c_stop := Some e; c_step := Some k |}
          (Down e k None) cs (Some e).
Proof.
  intros Hk.
  pose proof (Z.mod_pos_bound (e - cs) k Hk) as Hb.
  pose proof (Z.div_mod (e - cs) k ltac:(lia)) as Hd.
  split; [|split; [reflexivity|split; [|cbn [c_step step_of]; apply truthy_pos; exact Hk]]].
  - intros p. rewrite core_member_stepped by exact Hk. cbn [prog]. unfold in_ctx. split.
    + intros (H1 & H2 & [i ->]). specialize (H2 _ eq_refl).
      split; [exists ((e - cs) / k - i); repeat split; [nia|lia|discriminate]|].
      split; [lia|]. intros F [= <-]. lia.
    + intros [[i (Hi & -> & _)] [H1 H2]].
      assert (0 <= (e - cs) / k - i) by nia.
      split; [nia|]. split; [intros e' [= <-]; nia|].
      exists ((e - cs) / k - i). lia.
  - left. exists k. cbn [c_start c_stop c_step]. rewrite truthy_pos by exact Hk.
    split; [reflexivity|split; [exact Hk|]]. intros e' [= <-].
    replace (e - (cs + (e - cs) mod k)) with (((e - cs) / k) * k) by lia. apply Z.mod_mul. lia.
Qed.

(* ================================================================== *)
(* 9. the constructor on inputs outside the defect classes             *)
(* ================================================================== *)
Lemma init_core_fmt3 f cs ce sh :
  f_fmt f = 3 -> f_end f = None ->
  shape_of f cs ce = Some sh -> sane sh cs ce ->
  exists c, init_core f cs ce = Ok c /\ core_ok c sh cs ce.
Proof.
  intros Hfmt Hend Hsh Hsane. unfold shape_of in Hsh. rewrite Hfmt in Hsh. cbn in Hsh.
  unfold init_core. rewrite Hfmt, Hend, pfe_start, pfe_none. cbn [bind Z.eqb Pos.eqb orb].
  set (a := resolve (f_start f) cs) in *.
  destruct (f_intv f) as [k|].
  - destruct (f_reps f) as [n|].
    + destruct (n =? 1) eqn:En.
      * injection Hsh as <-. replace (n <=? 1) with true by lia. cbn [bind truthy_step].
        eexists; split; [reflexivity|]. apply oneoff_ok. exact Hsane.
      * injection Hsh as <-. cbn in Hsane. destruct Hsane as (Hk & Ha & Hn).
        destruct (Hn n eq_refl) as [Hn2 HF].
        replace (n <=? 1) with false by lia. cbn [bind]. rewrite truthy_pos by exact Hk.
        replace (k <? 0) with false by lia.
        replace (a <? cs) with false by lia.
        eexists; split; [reflexivity|].
        assert (Hst : match ce with
          | Some F => if a + k * (n - 1) >? F then Some (F - k + (F - a) mod k)
                      else Some (a + k * (n - 1))
          | None => Some (a + k * (n - 1)) end = Some (a + k * (n - 1))).
        { destruct ce as [F|]; [|reflexivity]. specialize (HF F eq_refl).
          replace (a + k * (n - 1) >? F) with false by lia. reflexivity. }
        rewrite Hst. apply up_n_ok; auto.
    + injection Hsh as <-. cbn in Hsane. destruct Hsane as (Hk & Ha & _).
      destruct ce as [F|].
      * replace (k =? 0) with false by lia. cbn [bind]. rewrite truthy_pos by exact Hk.
        replace (k <? 0) with false by lia.
        replace (a <? cs) with false by lia.
        pose proof (Z.mod_pos_bound (F - a) k Hk) as Hb.
        replace (F - (F - a) mod k >? F) with false by lia.
        eexists; split; [reflexivity|]. apply (up_inf_ok a k cs (Some F)); auto.
      * cbn [bind]. rewrite truthy_pos by exact Hk.
        replace (k <? 0) with false by lia.
        replace (a <? cs) with false by lia.
        eexists; split; [reflexivity|]. apply (up_inf_ok a k cs None); auto.
  - injection Hsh as <-. cbn [bind truthy_step].
    eexists; split; [reflexivity|]. apply oneoff_ok. exact Hsane.
Qed.

Lemma init_core_fmt4 f cs ce sh :
  f_fmt f = 4 -> f_start f = None ->
  shape_of f cs ce = Some sh -> sane sh cs ce ->
  exists c, init_core f cs ce = Ok c /\ core_ok c sh cs ce.
Proof.
  intros Hfmt Hstart Hsh Hsane. unfold shape_of in Hsh. rewrite Hfmt in Hsh. cbn in Hsh.
  destruct (end_point (f_end f) ce) as [e|] eqn:Ee; [|discriminate].
  unfold init_core. rewrite Hfmt, Hstart, (pfe_end _ _ _ _ Ee). cbn [point_from_expr bind Z.eqb Pos.eqb orb].
  destruct (f_reps f) as [n|].
  - destruct (n =? 1) eqn:En.
    + assert (Hsh' : sh = OneOff e) by (destruct (f_intv f); congruence). subst sh.
      replace (n <=? 1) with true by lia. cbn [bind truthy_step].
      eexists; split; [reflexivity|]. apply oneoff_ok. exact Hsane.
    + destruct (f_intv f) as [k|]; [|discriminate]. injection Hsh as <-.
      cbn in Hsane. destruct Hsane as (Hk & Hn2 & Hs & HF).
      replace (n <=? 1) with false by lia. cbn [bind]. rewrite truthy_pos by exact Hk.
      replace (k <? 0) with false by lia.
      replace (e - k * (n - 1) <? cs) with false by lia.
      assert (Hst : match ce with
          | Some F => if e >? F then Some (F - k + (F - (e - k * (n - 1))) mod k) else Some e
          | None => Some e end = Some e).
      { destruct ce as [F|]; [|reflexivity]. specialize (HF F eq_refl).
        replace (e >? F) with false by lia. reflexivity. }
      rewrite Hst. eexists; split; [reflexivity|]. apply down_n_ok; auto.
  - destruct (f_intv f) as [k|]; [|discriminate]. injection Hsh as <-.
    cbn in Hsane. destruct Hsane as (Hk & ->).
    replace (k =? 0) with false by lia. cbn [bind]. rewrite truthy_pos by exact Hk.
    replace (k <? 0) with false by lia.
    pose proof (Z.mod_pos_bound (e - cs) k Hk) as Hb.
    replace (e >? e) with false by lia.
    assert (Hst : (if cs - (e - cs) mod k <? cs then cs + (cs - (cs - (e - cs) mod k)) mod k
                   else cs - (e - cs) mod k) = cs + (e - cs) mod k).
    { destruct (cs - (e - cs) mod k <? cs) eqn:E.
      - replace (cs - (cs - (e - cs) mod k)) with ((e - cs) mod k) by lia.
        rewrite Z.mod_small by lia. reflexivity.
      - lia. }
    rewrite Hst. eexists; split; [reflexivity|]. apply down_inf_ok; auto.
Qed.

Lemma init_core_fmt1_once f cs ce sh :
  f_fmt f = 1 -> f_reps f = Some 1 ->
  shape_of f cs ce = Some sh -> sane sh cs ce ->
  exists c, init_core f cs ce = Ok c /\ core_ok c sh cs ce.
Proof.
  intros Hfmt Hreps Hsh Hsane. unfold shape_of in Hsh. rewrite Hfmt, Hreps in Hsh. cbn in Hsh.
  destruct (end_point (f_end f) ce) as [e|] eqn:Ee; [|discriminate]. injection Hsh as <-.
  unfold init_core. rewrite Hfmt, Hreps, pfe_start, (pfe_end _ _ _ _ Ee).
  cbn [bind Z.eqb Pos.eqb orb truthy_step].
  eexists; split; [reflexivity|]. apply oneoff_ok. exact Hsane.
Qed.

(* Rn/START/END with n <> 1 is rejected whatever the values: the step is a float *)
Lemma init_core_fmt1_rejected f cs ce n :
  f_fmt f = 1 -> f_reps f = Some n -> n <> 1 -> exists e, init_core f cs ce = Err e.
Proof.
  intros Hfmt Hreps Hn. unfold init_core. rewrite Hfmt, Hreps, pfe_start. cbn [bind Z.eqb Pos.eqb orb].
  destruct (point_from_expr (f_end f) ce true) as [o|er]; cbn [bind]; [|eauto].
  replace (n =? 1) with false by lia. destruct o; cbn [bind]; eauto.
Qed.

Lemma init_core_fmt1_rejected_kind f cs ce n e :
  f_fmt f = 1 -> f_reps f = Some n -> n <> 1 -> end_point (f_end f) ce = Some e ->
  init_core f cs ce = Err EIntervalParse.
Proof.
  intros Hfmt Hreps Hn He. unfold init_core.
  rewrite Hfmt, Hreps, pfe_start, (pfe_end _ _ _ _ He). cbn [bind Z.eqb Pos.eqb orb].
  replace (n =? 1) with false by lia. reflexivity.
Qed.

Definition sane_form (f : form) (cs : Z) (ce : option Z) : Prop :=
  wf_form f /\ (f_fmt f = 1 -> f_reps f = Some 1) /\
  exists sh, shape_of f cs ce = Some sh /\ sane sh cs ce.

Lemma init_core_sane f cs ce sh :
  wf_form f -> (f_fmt f = 1 -> f_reps f = Some 1) ->
  shape_of f cs ce = Some sh -> sane sh cs ce ->
  exists c, init_core f cs ce = Ok c /\ core_ok c sh cs ce.
Proof.
  intros [W3 W4] H1 Hsh Hsane.
  destruct (f_fmt f =? 3) eqn:E3; [assert (f_fmt f = 3) by lia; apply init_core_fmt3; auto|].
  destruct (f_fmt f =? 4) eqn:E4; [assert (f_fmt f = 4) by lia; apply init_core_fmt4; auto|].
  destruct (f_fmt f =? 1) eqn:E1; [assert (f_fmt f = 1) by lia; apply init_core_fmt1_once; auto|].
  unfold shape_of in Hsh. rewrite E3, E4, E1 in Hsh. discriminate.
Qed.

Lemma denote0_core f cs ce sh c p :
  shape_of f cs ce = Some sh -> core_ok c sh cs ce ->
  (core_member c p <-> denote0 f cs ce p).
Proof.
  intros Hsh (Hm & _). rewrite Hm. unfold denote0. split.
  - intros [H1 H2]. exists sh. auto.
  - intros (sh' & Hsh' & H1 & H2). rewrite Hsh in Hsh'. injection Hsh' as <-. auto.
Qed.

(* the bounds handed to exclusion sequences are the extremes of the clipped
   progression *)
Lemma bounds_extremes f cs ce sh :
  wf_form f -> (f_fmt f = 1 -> f_reps f = Some 1) ->
  shape_of f cs ce = Some sh -> sane sh cs ce ->
  let lo := fst (bounds sh cs ce) in
  let hi := snd (bounds sh cs ce) in
  (forall p, denote0 f cs ce p -> lo <= p /\ forall e, hi = Some e -> p <= e) /\
  ((forall e, hi = Some e -> lo <= e) ->
   denote0 f cs ce lo /\ forall e, hi = Some e -> denote0 f cs ce e).
Proof.
  intros W H1 Hsh Hsane lo hi.
  destruct (init_core_sane f cs ce sh W H1 Hsh Hsane) as [c [_ Hok]].
  pose proof Hok as (Hm & Hb & Hreg & _).
  assert (Hlo : c_start c = lo) by (subst lo; rewrite <- Hb; reflexivity).
  assert (Hhi : c_stop c = hi) by (subst hi; rewrite <- Hb; reflexivity).
  split.
  - intros p Hp. apply (denote0_core f cs ce sh c p Hsh Hok) in Hp.
    destruct Hp as (H2 & H3 & _). rewrite <- Hlo, <- Hhi. auto.
  - intros Hne. rewrite <- Hlo, <- Hhi in *. split.
    + apply (denote0_core f cs ce sh c _ Hsh Hok). unfold core_member.
      split; [lia|split; [exact Hne|]].
      destruct Hreg as [[k (Hk & _ & _)]|[Ho _]]; [rewrite Hk; exists 0; lia|rewrite Ho; reflexivity].
    + intros e He. apply (denote0_core f cs ce sh c _ Hsh Hok). unfold core_member.
      split; [apply Hne; exact He|split; [intros e' He'; rewrite He in He'; injection He' as <-; lia|]].
      destruct Hreg as [[k (Hk & Hpos & Hg)]|[Ho Hst]].
      * rewrite Hk. apply grid_iff; [lia|]. apply Hg. exact He.
      * rewrite Ho. rewrite Hst in He. injection He as <-. reflexivity.
Qed.

(* ---------- exclusions ---------- *)
Definition item_excludes (lo : Z) (hi : option Z) (it : xitem) (p : Z) : Prop :=
  match it with XP q => p = q | XS g => denote0 g lo hi p end.

Definition sane_item (lo : Z) (hi : option Z) (it : xitem) : Prop :=
  match it with XP _ => True | XS g => sane_form g lo hi end.

Lemma build_excl_sane its lo hi :
  (forall it, In it its -> sane_item lo hi it) ->
  exists x, build_excl its lo hi = Ok x /\
            forall p, excl_member x p <-> exists it, In it its /\ item_excludes lo hi it p.
Proof.
  induction its as [|it r IH]; intros Hs.
  - exists ([], []). split; [reflexivity|]. intros p. unfold excl_member. cbn.
    split; [intros [[]|[c [[] _]]]|intros [it [[] _]]].
  - destruct IH as [x [Hx Hm]]; [intros it' Hin; apply Hs; now right|].
    destruct it as [q|g].
    + exists (q :: fst x, snd x). split; [cbn [build_excl]; rewrite Hx; reflexivity|].
      intros p. specialize (Hm p). unfold excl_member in *. cbn [fst snd In]. split.
      * intros [[<-|Hin]|Hc].
        -- exists (XP q). split; [now left|reflexivity].
        -- destruct (proj1 Hm (or_introl Hin)) as [it' [Hi He]]. exists it'. split; [now right|exact He].
        -- destruct (proj1 Hm (or_intror Hc)) as [it' [Hi He]]. exists it'. split; [now right|exact He].
      * intros [it' [[<-|Hi] He]].
        -- cbn in He. left. left. congruence.
        -- destruct (proj2 Hm (ex_intro _ it' (conj Hi He))) as [H|H]; [left; right; exact H|right; exact H].
    + destruct (Hs (XS g) (or_introl eq_refl)) as (Wg & H1 & shg & Hshg & Hsg).
      destruct (init_core_sane g lo hi shg Wg H1 Hshg Hsg) as [c [Hc Hok]].
      exists (fst x, c :: snd x). split; [cbn [build_excl]; rewrite Hc, Hx; reflexivity|].
      intros p. specialize (Hm p). unfold excl_member in *. cbn [fst snd In]. split.
      * intros [Hin|[c' [[<-|Hc'] Hmem]]].
        -- destruct (proj1 Hm (or_introl Hin)) as [it' [Hi He]]. exists it'. split; [now right|exact He].
        -- exists (XS g). split; [now left|]. cbn. apply (denote0_core g lo hi shg c p Hshg Hok). exact Hmem.
        -- destruct (proj1 Hm (or_intror (ex_intro _ c' (conj Hc' Hmem)))) as [it' [Hi He]].
           exists it'. split; [now right|exact He].
      * intros [it' [[<-|Hi] He]].
        -- cbn in He. right. exists c. split; [now left|].
           apply (denote0_core g lo hi shg c p Hshg Hok). exact He.
        -- destruct (proj2 Hm (ex_intro _ it' (conj Hi He))) as [H|[c' [Hc' Hmem]]];
             [left; exact H|right; exists c'; split; [now right|exact Hmem]].
Qed.

(* the set a recurrence with exclusions denotes: the clipped progression minus
   the exclusion points and minus the points of every exclusion sequence, the
   latter read in the context [first point, last point] of the recurrence *)
Definition denote (f : form) (items : option (list xitem)) (cs : Z) (ce : option Z) (p : Z) : Prop :=
  denote0 f cs ce p /\
  forall sh its it, shape_of f cs ce = Some sh -> items = Some its -> In it its ->
    ~ item_excludes (fst (bounds sh cs ce)) (snd (bounds sh cs ce)) it p.

Definition sane_items (sh : shape) (items : option (list xitem)) (cs : Z) (ce : option Z) : Prop :=
  forall its it, items = Some its -> In it its ->
    sane_item (fst (bounds sh cs ce)) (snd (bounds sh cs ce)) it.

Definition seq_regular (s : seq) : Prop :=
  (exists k, stepped s k /\ stop_on_grid s k) \/
  (oneoff s /\ c_stop (s_core s) = Some (c_start (s_core s))).

Lemma init_sane f items cs ce sh :
  wf_form f -> (f_fmt f = 1 -> f_reps f = Some 1) ->
  shape_of f cs ce = Some sh -> sane sh cs ce -> sane_items sh items cs ce ->
  exists s, init f items cs ce = Ok s /\
            (forall p, seq_member s p <-> denote f items cs ce p) /\
            seq_regular s /\
            (c_start (s_core s), c_stop (s_core s)) = bounds sh cs ce /\
            truthy_step (c_step (s_core s)) = step_of sh.
Proof.
  intros W H1 Hsh Hsane Hits.
  destruct (init_core_sane f cs ce sh W H1 Hsh Hsane) as [c [Hc Hok]].
  pose proof Hok as (Hmem & Hb & Hreg & Hstep).
  assert (Hregs : forall x, seq_regular {| s_core := c; s_excl := x |}).
  { intros x. destruct Hreg as [[k (Hk & Hpos & Hg)]|[Ho Hst]].
    - left. exists k. split; [split; assumption|exact Hg].
    - right. split; assumption. }
  unfold init. rewrite Hc. cbn [bind].
  assert (Hnone : forall p, seq_member {| s_core := c; s_excl := None |} p <-> denote0 f cs ce p).
  { intros p. unfold seq_member. cbn [s_core s_excl]. rewrite (denote0_core f cs ce sh c p Hsh Hok).
    split; [tauto|]. intros H. split; [exact H|discriminate]. }
  destruct items as [[|it0 its]|].
  - eexists; split; [reflexivity|]. split; [|split; [apply Hregs|split; [exact Hb|exact Hstep]]].
    intros p. rewrite Hnone. unfold denote. split; [|tauto].
    intros H. split; [exact H|]. intros sh' its it _ [= <-] [].
  - assert (Hs' : forall it, In it (it0 :: its) ->
                  sane_item (fst (bounds sh cs ce)) (snd (bounds sh cs ce)) it).
    { intros it Hin. eapply Hits; eauto. }
    rewrite <- Hb in Hs'. cbn [fst snd] in Hs'.
    destruct (build_excl_sane (it0 :: its) (c_start c) (c_stop c) Hs') as [x [Hx Hxm]].
    rewrite Hx. cbn [bind]. eexists; split; [reflexivity|].
    split; [|split; [apply Hregs|split; [exact Hb|exact Hstep]]].
    intros p. unfold seq_member, denote. cbn [s_core s_excl].
    rewrite (denote0_core f cs ce sh c p Hsh Hok). split.
    + intros [Hd Hex]. split; [exact Hd|].
      intros sh' its' it Hsh' [= <-] Hin Hie. rewrite Hsh in Hsh'. injection Hsh' as <-.
      rewrite <- Hb in Hie. cbn [fst snd] in Hie.
      apply (Hex x eq_refl). apply Hxm. exists it. auto.
    + intros [Hd Hex]. split; [exact Hd|]. intros x' [= <-] Hxp.
      apply Hxm in Hxp. destruct Hxp as [it [Hin Hie]].
      apply (Hex sh (it0 :: its) it Hsh eq_refl Hin). rewrite <- Hb. exact Hie.
  - eexists; split; [reflexivity|]. split; [|split; [apply Hregs|split; [exact Hb|exact Hstep]]].
    intros p. rewrite Hnone. unfold denote. split; [|tauto].
    intros H. split; [exact H|]. intros sh' its it _ [=].
Qed.

(* ================================================================== *)
(* 10. end to end: constructor + queries against [denote]              *)
(* ================================================================== *)
Lemma least_gt_ext (M M' : Z -> Prop) p r :
  (forall q, M q <-> M' q) -> is_least_gt M p r -> is_least_gt M' p r.
Proof.
  intros E. destruct r as [m|]; cbn.
  - intros (H1 & H2 & H3). split; [apply E; exact H1|split; [exact H2|]].
    intros m' Hm'. apply H3. apply E. exact Hm'.
  - intros H m' Hm'. apply H. apply E. exact Hm'.
Qed.
Lemma least_ge_ext (M M' : Z -> Prop) p r :
  (forall q, M q <-> M' q) -> is_least_ge M p r -> is_least_ge M' p r.
Proof.
  intros E. destruct r as [m|]; cbn.
  - intros (H1 & H2 & H3). split; [apply E; exact H1|split; [exact H2|]].
    intros m' Hm'. apply H3. apply E. exact Hm'.
  - intros H m' Hm'. apply H. apply E. exact Hm'.
Qed.
Lemma greatest_lt_ext (M M' : Z -> Prop) p r :
  (forall q, M q <-> M' q) -> is_greatest_lt M p r -> is_greatest_lt M' p r.
Proof.
  intros E. destruct r as [m|]; cbn.
  - intros (H1 & H2 & H3). split; [apply E; exact H1|split; [exact H2|]].
    intros m' Hm'. apply H3. apply E. exact Hm'.
  - intros H m' Hm'. apply H. apply E. exact Hm'.
Qed.
Lemma min_ext (M M' : Z -> Prop) r : (forall q, M q <-> M' q) -> is_min M r -> is_min M' r.
Proof.
  intros E. destruct r as [m|]; cbn.
  - intros (H1 & H3). split; [apply E; exact H1|]. intros m' Hm'. apply H3. apply E. exact Hm'.
  - intros H m' Hm'. apply (H m'). apply E. exact Hm'.
Qed.
Lemma max_ext (M M' : Z -> Prop) r : (forall q, M q <-> M' q) -> is_max M r -> is_max M' r.
Proof.
  intros E. destruct r as [m|]; cbn.
  - intros (H1 & H3). split; [apply E; exact H1|]. intros m' Hm'. apply H3. apply E. exact Hm'.
  - intros H m' Hm'. apply (H m'). apply E. exact Hm'.
Qed.

(* an input outside every defect class of the constructor *)
Definition sane_input (f : form) (items : option (list xitem)) (cs : Z) (ce : option Z)
  (sh : shape) : Prop :=
  wf_form f /\ (f_fmt f = 1 -> f_reps f = Some 1) /\
  shape_of f cs ce = Some sh /\ sane sh cs ce /\ sane_items sh items cs ce.

Section EndToEnd.
  Variables (f : form) (items : option (list xitem)) (cs : Z) (ce : option Z)
            (sh : shape) (s : seq).
  Hypothesis Hin : sane_input f items cs ce sh.
  Hypothesis Hs : init f items cs ce = Ok s.

  Let M := denote f items cs ce.
  Let lo := fst (bounds sh cs ce).
  Let hi := snd (bounds sh cs ce).

  Lemma e2e_facts :
    (forall p, seq_member s p <-> M p) /\ seq_regular s /\
    c_start (s_core s) = lo /\ c_stop (s_core s) = hi /\
    truthy_step (c_step (s_core s)) = step_of sh.
  Proof.
    destruct Hin as (W & H1 & Hsh & Hsane & Hits).
    destruct (init_sane f items cs ce sh W H1 Hsh Hsane Hits) as (s' & Hs' & Hm & Hr & Hb & Hst).
    rewrite Hs in Hs'. injection Hs' as <-. subst lo hi. rewrite <- Hb. cbn [fst snd]. auto.
  Qed.

  Lemma e2e_regular : regular s.
  Proof.
    destruct e2e_facts as (_ & [[k [Hk _]]|[Ho _]] & _); [left; eauto|right; exact Ho].
  Qed.

  Lemma e2e_stepped k : step_of sh = Some k -> stepped s k /\ stop_on_grid s k.
  Proof.
    intros Hk. destruct e2e_facts as (_ & Hr & _ & _ & Hst). rewrite Hk in Hst.
    destruct Hr as [[k' [[Hk' Hpos] Hg]]|[Ho _]].
    - rewrite Hk' in Hst. injection Hst as ->. split; [split; assumption|exact Hg].
    - unfold oneoff in Ho. congruence.
  Qed.

  Lemma e2e_oneoff :
    step_of sh = None -> oneoff s /\ c_stop (s_core s) = Some (c_start (s_core s)).
  Proof.
    intros Hk. destruct e2e_facts as (_ & Hr & _ & _ & Hst). rewrite Hk in Hst.
    destruct Hr as [[k' [[Hk' Hpos] Hg]]|Ho]; [congruence|exact Ho].
  Qed.

  Lemma e2e_valid p : is_valid s p = true <-> M p.
  Proof. rewrite is_valid_iff. apply e2e_facts. Qed.

  Lemma e2e_first fuel p r : get_first_point fuel s p = Ok r -> is_least_ge M p r.
  Proof.
    intros H. apply (least_ge_ext (seq_member s)); [apply e2e_facts|].
    eapply first_regular; eauto. apply e2e_regular.
  Qed.

  Lemma e2e_next fuel p r :
    (forall k, step_of sh = Some k -> lo - k <= p) ->
    (step_of sh = None -> p < lo -> M lo) ->
    get_next_point fuel s p = Ok r -> is_least_gt M p r.
  Proof.
    intros Hk Ho H. apply (least_gt_ext (seq_member s)); [apply e2e_facts|].
    destruct e2e_facts as (Hm & _ & Hlo & _ & _).
    destruct (step_of sh) as [k|] eqn:Est.
    - destruct (e2e_stepped k Est) as [Hst _]. eapply next_stepped; eauto.
      rewrite Hlo. apply Hk. reflexivity.
    - destruct (e2e_oneoff Est) as [Hoo _]. eapply next_oneoff; eauto.
      rewrite Hlo. intros Hlt. apply Hm. apply Ho; auto.
  Qed.

  Lemma e2e_prev fuel p r k :
    step_of sh = Some k -> (forall e, hi = Some e -> p <= e + k) ->
    get_prev_point fuel s p = Ok r -> is_greatest_lt M p r.
  Proof.
    intros Hk Hp H. apply (greatest_lt_ext (seq_member s)); [apply e2e_facts|].
    destruct e2e_facts as (_ & _ & _ & Hhi & _).
    destruct (e2e_stepped k Hk) as [Hst Hg]. eapply prev_stepped; eauto.
    rewrite Hhi. exact Hp.
  Qed.

  Lemma e2e_nprev fuel p r :
    (forall k e, step_of sh = Some k -> hi = Some e -> p <= e + k) ->
    get_nearest_prev_point fuel s p = Ok r -> is_greatest_lt M p r.
  Proof.
    intros Hp H. apply (greatest_lt_ext (seq_member s)); [apply e2e_facts|].
    destruct e2e_facts as (_ & _ & _ & Hhi & _).
    destruct (step_of sh) as [k|] eqn:Est.
    - destruct (e2e_stepped k Est) as [Hst Hg]. eapply nprev_stepped; eauto.
      intros _ e He. rewrite Hhi in He. eapply Hp; eauto.
    - destruct (e2e_oneoff Est) as [Hoo _]. eapply nprev_oneoff; eauto.
  Qed.

  Lemma e2e_nos fuel p r k :
    step_of sh = Some k -> (exists i, p = lo + i * k) -> lo - k <= p ->
    get_next_point_on_sequence fuel s p = Ok r -> is_least_gt M p r.
  Proof.
    intros Hk Hg Hp H. apply (least_gt_ext (seq_member s)); [apply e2e_facts|].
    destruct e2e_facts as (_ & _ & Hlo & _ & _).
    destruct (e2e_stepped k Hk) as [Hst _]. eapply nos_stepped; eauto.
    - rewrite Hlo. apply grid_iff; [destruct Hst; lia|exact Hg].
    - rewrite Hlo. exact Hp.
  Qed.

  Lemma e2e_start fuel r :
    (forall e, hi = Some e -> lo <= e) -> get_start_point fuel s = Ok r -> is_min M r.
  Proof.
    intros Hne H. apply (min_ext (seq_member s)); [apply e2e_facts|].
    destruct e2e_facts as (_ & _ & Hlo & Hhi & _).
    eapply start_regular; eauto; [apply e2e_regular|]. rewrite Hlo, Hhi. exact Hne.
  Qed.

  Lemma e2e_stop fuel r e :
    hi = Some e -> lo <= e -> get_stop_point fuel s = Ok r -> is_max M r.
  Proof.
    intros He Hne H. apply (max_ext (seq_member s)); [apply e2e_facts|].
    destruct e2e_facts as (_ & _ & Hlo & Hhi & _).
    destruct (step_of sh) as [k|] eqn:Est.
    - destruct (e2e_stepped k Est) as [Hst Hg]. apply (stop_stepped fuel s k e r Hst Hg); [rewrite Hhi; exact He|rewrite Hlo; exact Hne|exact H].
    - destruct (e2e_oneoff Est) as [Hoo Hst]. eapply stop_oneoff; eauto.
  Qed.

  Lemma e2e_stop_unbounded fuel r : hi = None -> get_stop_point fuel s = Ok r -> r = None.
  Proof.
    intros He. destruct e2e_facts as (_ & _ & _ & Hhi & _). apply stop_unbounded. congruence.
  Qed.
End EndToEnd.

(* ================================================================== *)
(* 11. every constructed sequence is regular (step > 0 or one-off)      *)
(* ================================================================== *)
Lemma init_core_regular f cs ce c :
  init_core f cs ce = Ok c ->
  (exists k, truthy_step (c_step c) = Some k /\ 0 < k) \/ truthy_step (c_step c) = None.
Proof.
  unfold init_core.
  destruct (point_from_expr (f_start f) (Some cs) _) as [[p0|]|]; cbn [bind]; try discriminate;
    (destruct (point_from_expr (f_end f) ce _) as [s0|]; cbn [bind]; try discriminate).
  match goal with |- bind ?X _ = _ -> _ => destruct X as [[[a b] st]|] end; cbn [bind]; try discriminate.
  destruct (truthy_step st) as [k|] eqn:Et.
  - destruct (k <? 0) eqn:Ek; [discriminate|]. intros [= <-]. cbn [c_step].
    left. exists k. split; [exact Et|]. apply truthy_step_some in Et. lia.
  - intros [= <-]. right. exact Et.
Qed.

Lemma init_regular f items cs ce s : init f items cs ce = Ok s -> regular s.
Proof.
  unfold init. destruct (init_core f cs ce) as [c|] eqn:Ec; cbn [bind]; [|discriminate].
  apply init_core_regular in Ec.
  assert (H : forall x, regular {| s_core := c; s_excl := x |}).
  { intros x. destruct Ec as [[k [Hk Hpos]]|Ho]; [left; exists k; split; assumption|right; exact Ho]. }
  destruct items as [[|it its]|]; try (intros [= <-]; apply H).
  destruct (build_excl _ _ _); cbn [bind]; [|discriminate]. intros [= <-]. apply H.
Qed.

(* ================================================================== *)
(* 12. the named recurrence forms, as dispatched by RECURRENCE_FORMAT_RECS *)
(* ================================================================== *)
Definition mkform fmt reps st en intv : form :=
  {| f_fmt := fmt; f_reps := reps; f_start := st; f_end := en; f_intv := intv |}.
Definition F_Rn_S_E n S E := mkform 1 (Some n) (Some S) (Some E) None.      (* Rn/START/END *)
Definition F_S_Pk S k := mkform 3 None (Some S) None (Some k).              (* START/Pk *)
Definition F_Pk k := mkform 3 None None None (Some k).                      (* Pk *)
Definition F_Pk_E k E := mkform 4 None None (Some E) (Some k).              (* Pk/END *)
Definition F_R1_S n S := mkform 3 n (Some S) None None.                     (* R1/START, R/START *)
Definition F_Rn_S_Pk n S k := mkform 3 n (Some S) None (Some k).            (* Rn/START/Pk *)
Definition F_Rn__Pk n k := mkform 3 n None None (Some k).                   (* Rn//Pk *)
Definition F_Rn_Pk_E n k E := mkform 4 n None (Some E) (Some k).            (* Rn/Pk/END *)
Definition F_Rn_Pk n k := mkform 4 n None None (Some k).                    (* Rn/Pk *)
Definition F_R1 := mkform 3 (Some 1) None None None.                        (* R1 *)
Definition F_R1__E E := mkform 4 (Some 1) None (Some E) None.               (* R1//END *)

(* side conditions of the specification: interval >= 1, repetitions >= 2
   (n = 1 is the one-off shape) *)
Definition shape_wf (sh : shape) : Prop :=
  match sh with
  | OneOff _ => True
  | Up _ k n | Down _ k n => 1 <= k /\ forall m, n = Some m -> 2 <= m
  end.

Lemma denote_no_items f cs ce p : denote0 f cs ce p -> denote f None cs ce p.
Proof. intros H. split; [exact H|]. intros sh its it _ [=]. Qed.
