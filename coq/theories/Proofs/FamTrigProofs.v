(* Proofs/FamTrigProofs.v — C15: family nodes on the left expand to the AND/OR
   over the members of the documented member output; family nodes on the
   right give every member the trigger and the declared optionality. *)
From Coq Require Import List Bool Arith String Lia.
From Cylc Require Import Base.Util Gen.FamTables Model.GraphBase Model.GraphExpr
  Proofs.GraphExprProofs.
Import ListNotations.

(* ================= the generated tables against the documented table ================= *)

Definition sb_eqb (a b : string * bool) : bool := String.eqb (fst a) (fst b) && Bool.eqb (snd a) (snd b).

(* the left-hand table entry of family qualifier k is the documented one *)
Definition fam_entry_ok (k : string) : bool :=
  match assoc String.eqb k doc_fam_table with
  | Some d => option_eqb sb_eqb (assoc String.eqb (std_name k) fam_to_mem_trigger_map) (Some d)
  | None => false
  end.

(* the right-hand table entry of family qualifier k is the documented one *)
Definition out_entry_ok (k : string) : bool :=
  match assoc String.eqb k doc_fam_table with
  | Some (o, _) =>
      option_eqb (list_eqb String.eqb) (assoc String.eqb k fam_to_mem_output_map) (Some (doc_outputs o))
      && Bool.eqb (String.prefix "finish" k) (String.eqb o TASK_OUTPUT_FINISHED)
  | None => false
  end.

Lemma sb_eqb_eq a b : sb_eqb a b = true -> a = b.
Proof.
  destruct a, b. unfold sb_eqb. cbn. intros H. apply andb_true_iff in H. destruct H as [H1 H2].
  apply String.eqb_eq in H1. apply Bool.eqb_prop in H2. congruence.
Qed.

Lemma fam_entry_ok_spec k : fam_entry_ok k = true ->
  exists o all, assoc String.eqb k doc_fam_table = Some (o, all)
                /\ assoc String.eqb (std_name k) fam_to_mem_trigger_map = Some (o, all).
Proof.
  unfold fam_entry_ok. destruct (assoc String.eqb k doc_fam_table) as [[o all]|]; [|discriminate].
  destruct (assoc String.eqb (std_name k) fam_to_mem_trigger_map) as [d|]; cbn; [|discriminate].
  intros H. apply sb_eqb_eq in H. subst. eauto.
Qed.

(* every documented qualifier <q>-all / <q>-any is found in the documented table *)
Lemma doc_table_lookup q o all :
  In (q, o) alt_qualifiers -> assoc String.eqb (fam_qual q all) doc_fam_table = Some (o, all).
Proof.
  intros H.
  assert (F : forallb (fun qo =>
              option_eqb sb_eqb (assoc String.eqb (fam_qual (fst qo) true) doc_fam_table) (Some (snd qo, true))
              && option_eqb sb_eqb (assoc String.eqb (fam_qual (fst qo) false) doc_fam_table) (Some (snd qo, false)))
            alt_qualifiers = true) by (vm_compute; reflexivity).
  rewrite forallb_forall in F. specialize (F _ H). cbn [fst snd] in F.
  apply andb_true_iff in F. destruct F as [F1 F2].
  destruct all.
  - destruct (assoc String.eqb (fam_qual q true) doc_fam_table); [|discriminate].
    cbn in F1. apply sb_eqb_eq in F1. congruence.
  - destruct (assoc String.eqb (fam_qual q false) doc_fam_table); [|discriminate].
    cbn in F2. apply sb_eqb_eq in F2. congruence.
Qed.

(* ... and whose table entry is the documented one *)
Definition left_node_ok (fm : family_map) (n : node) : bool :=
  node_accepted fm n
  && match fam_members fm (n_name n) with
     | Some _ => match n_qual n with Some q => fam_entry_ok q | None => false end
     | None => true
     end.

Lemma member_expr_print off out m :
  print_e (member_expr off out m) = fst (fin_expand m off out).
Proof. unfold member_expr, fin_expand. destruct (String.eqb out TASK_OUTPUT_FINISHED); reflexivity. Qed.

Lemma member_expr_wf off out m : wf_lvl 2 (member_expr off out m) = true.
Proof. unfold member_expr. destruct (String.eqb out TASK_OUTPUT_FINISHED); reflexivity. Qed.

Lemma member_expr_eval v off out m :
  eval_e (fun n => v (node_atom n)) (member_expr off out m) = member_holds v off out m.
Proof. unfold member_expr, member_holds. destruct (String.eqb out TASK_OUTPUT_FINISHED); reflexivity. Qed.

Lemma big_op_cons2 all x y r :
  big_op all (x :: y :: r) = if all then LAnd x (big_op all (y :: r)) else LOr x (big_op all (y :: r)).
Proof. reflexivity. Qed.
Lemma join_toks_cons2 sep x y r : join_toks sep (x :: y :: r) = x ++ sep :: join_toks sep (y :: r).
Proof. reflexivity. Qed.

Lemma big_op_print all (l : list lexpr) : l <> [] ->
  print_e (big_op all l) = join_toks (if all then TAnd else TOr) (map print_e l).
Proof.
  induction l as [|x r IH]; [congruence|]. intros _.
  destruct r as [|y r']; [reflexivity|].
  rewrite big_op_cons2. cbn [map] in *. rewrite join_toks_cons2. rewrite <- IH by discriminate.
  destruct all; reflexivity.
Qed.

Lemma big_op_wf all (l : list lexpr) : l <> [] ->
  (forall x, In x l -> wf_lvl 2 x = true) -> wf_lvl 0 (big_op all l) = true.
Proof.
  intros Hne Hall.
  assert (G : wf_lvl (if all then 1 else 0) (big_op all l) = true).
  { induction l as [|x r IH]; [congruence|].
    destruct r as [|y r'].
    - cbn. apply (wf_lvl_le x 2); [destruct all; lia|]. apply Hall. now left.
    - rewrite big_op_cons2. destruct all; cbn [wf_lvl].
      + rewrite (Hall x (or_introl eq_refl)). rewrite IH; [reflexivity|discriminate|].
        intros z Hz. apply Hall. now right.
      + rewrite (wf_lvl_le x 2 1 ltac:(lia) (Hall x (or_introl eq_refl))).
        rewrite IH; [reflexivity|discriminate|]. intros z Hz. apply Hall. now right. }
  destruct all; [apply (wf_lvl_le _ 1 0); [lia|exact G]|exact G].
Qed.

Lemma big_op_eval f all (l : list lexpr) : l <> [] ->
  eval_e f (big_op all l) = if all then forallb (eval_e f) l else existsb (eval_e f) l.
Proof.
  induction l as [|x r IH]; [congruence|]. intros _.
  destruct r as [|y r'].
  - cbn. destruct all; [now rewrite andb_true_r|now rewrite orb_false_r].
  - rewrite big_op_cons2.
    destruct all; cbn [eval_e]; rewrite IH by discriminate; reflexivity.
Qed.

Lemma map_fst_fin_expand off out ms :
  map fst (map (fun m => fin_expand m off out) ms) = map print_e (map (member_expr off out) ms).
Proof. rewrite !map_map. apply map_ext. intros m. now rewrite member_expr_print. Qed.

Lemma expand_node_print fm n : node_accepted fm n = true ->
  exists atoms, expand_node fm n = Ok (print_e (expand_node_e fm n), atoms).
Proof.
  unfold node_accepted, expand_node, expand_node_e.
  destruct (fam_members fm (n_name n)) as [ms|].
  - intros H. apply andb_true_iff in H. destruct H as [Hne H].
    destruct (n_qual n) as [q|]; [|discriminate].
    destruct (assoc String.eqb (std_name q) fam_to_mem_trigger_map) as [[ttype all]|]; [|discriminate].
    eexists. cbn [print_e]. rewrite big_op_print.
    + rewrite map_fst_fin_expand. reflexivity.
    + destruct ms; [discriminate|]. discriminate.
  - intros H. fold (task_out n). destruct (is_fam_qual (task_out n)); [discriminate|].
    rewrite member_expr_print. destruct (fin_expand (n_name n) (n_off n) (task_out n)). eauto.
Qed.

Lemma expand_node_wf fm n : node_accepted fm n = true -> wf_lvl 2 (expand_node_e fm n) = true.
Proof.
  unfold node_accepted, expand_node_e.
  destruct (fam_members fm (n_name n)) as [ms|]; [|intros _; apply member_expr_wf].
  intros H. apply andb_true_iff in H. destruct H as [Hne H].
  destruct (n_qual n) as [q|]; [|discriminate].
  destruct (assoc String.eqb (std_name q) fam_to_mem_trigger_map) as [[ttype all]|]; [|discriminate].
  cbn [wf_lvl]. apply big_op_wf.
  - destruct ms; discriminate.
  - intros x Hx. apply in_map_iff in Hx. destruct Hx as [m [<- _]]. apply member_expr_wf.
Qed.

(* ================= expand_left on printed trees ================= *)

Lemma expand_left_app fm l1 : forall l2 t1 a1 t2 a2,
  expand_left fm l1 = Ok (t1, a1) -> expand_left fm l2 = Ok (t2, a2) ->
  expand_left fm (l1 ++ l2) = Ok (t1 ++ t2, a1 ++ a2).
Proof.
  induction l1 as [|t r IH]; intros l2 t1 a1 t2 a2 H1 H2.
  - cbn in H1. inversion H1; subst. exact H2.
  - cbn [app expand_left] in *.
    destruct (expand_left fm r) as [[tr ar]| |] eqn:Er; try discriminate.
    rewrite (IH l2 tr ar t2 a2 eq_refl H2). cbn [bind fst snd] in *.
    destruct t; try discriminate;
      try (inversion H1; subst; reflexivity).
    destruct (expand_node fm n) as [[tn an]| |]; try discriminate.
    cbn [bind fst snd] in *. inversion H1; subst. now rewrite <- !app_assoc.
Qed.

Lemma expand_left_print fm e :
  forallb (node_accepted fm) (nodes_e e) = true ->
  exists atoms, expand_left fm (print_e e) = Ok (print_e (expand_e fm e), atoms).
Proof.
  induction e as [n|e IH|a IHa b IHb|a IHa b IHb]; cbn [nodes_e print_e expand_e]; intros H.
  - cbn in H. rewrite andb_true_r in H.
    destruct (expand_node_print fm n H) as [atoms E].
    exists (atoms ++ []). cbn [expand_left bind]. rewrite E. cbn. now rewrite app_nil_r.
  - destruct (IH H) as [atoms E].
    assert (R : expand_left fm [TRp] = Ok ([TRp], [])) by reflexivity.
    pose proof (expand_left_app fm _ _ _ _ _ _ E R) as E2.
    exists (atoms ++ []). cbn [expand_left]. rewrite E2. reflexivity.
  - rewrite forallb_app in H. apply andb_true_iff in H. destruct H as [Ha Hb].
    destruct (IHa Ha) as [aa Ea]. destruct (IHb Hb) as [ab Eb].
    assert (R : expand_left fm (TAnd :: print_e b) = Ok (TAnd :: print_e (expand_e fm b), ab))
      by (cbn [expand_left]; rewrite Eb; reflexivity).
    exists (aa ++ ab). exact (expand_left_app fm _ _ _ _ _ _ Ea R).
  - rewrite forallb_app in H. apply andb_true_iff in H. destruct H as [Ha Hb].
    destruct (IHa Ha) as [aa Ea]. destruct (IHb Hb) as [ab Eb].
    assert (R : expand_left fm (TOr :: print_e b) = Ok (TOr :: print_e (expand_e fm b), ab))
      by (cbn [expand_left]; rewrite Eb; reflexivity).
    exists (aa ++ ab). exact (expand_left_app fm _ _ _ _ _ _ Ea R).
Qed.

Lemma expand_e_wf fm e : forall lvl, lvl <= 2 ->
  forallb (node_accepted fm) (nodes_e e) = true ->
  wf_lvl lvl e = true -> wf_lvl lvl (expand_e fm e) = true.
Proof.
  induction e as [n|e IH|a IHa b IHb|a IHa b IHb]; cbn [nodes_e expand_e wf_lvl]; intros lvl Hl H Hwf.
  - cbn in H. rewrite andb_true_r in H. apply (wf_lvl_le _ 2 lvl Hl). now apply expand_node_wf.
  - apply IH; auto.
  - rewrite forallb_app in H. apply andb_true_iff in H. destruct H as [Ha Hb].
    apply andb_true_iff in Hwf. destruct Hwf as [Hwf Hwb]. apply andb_true_iff in Hwf. destruct Hwf as [Hl1 Hwa].
    rewrite Hl1, (IHa 2), (IHb 1); auto.
  - rewrite forallb_app in H. apply andb_true_iff in H. destruct H as [Ha Hb].
    apply andb_true_iff in Hwf. destruct Hwf as [Hwf Hwb]. apply andb_true_iff in Hwf. destruct Hwf as [Hl1 Hwa].
    rewrite Hl1, (IHa 1), (IHb 0); auto.
Qed.

(* ================= the value of the expansion ================= *)

Lemma std_name_doc_keys k o all :
  assoc String.eqb k doc_fam_table = Some (o, all) -> std_name k = k.
Proof.
  intros H.
  assert (F : forallb (fun kd => String.eqb (std_name (fst kd)) (fst kd)) doc_fam_table = true)
    by (vm_compute; reflexivity).
  rewrite forallb_forall in F.
  assert (Hin : exists d, In (k, d) doc_fam_table).
  { revert H. generalize doc_fam_table. induction l as [|[k' d'] r IH]; cbn; [discriminate|].
    destruct (String.eqb k k') eqn:E.
    - apply String.eqb_eq in E. subst. intros _. eauto.
    - intros H. destruct (IH H) as [d Hd]. eauto. }
  destruct Hin as [d Hd]. specialize (F _ Hd). cbn in F. now apply String.eqb_eq in F.
Qed.

Lemma forallb_map {A B} (f : B -> bool) (g : A -> B) l : forallb f (map g l) = forallb (fun x => f (g x)) l.
Proof. induction l; cbn; congruence. Qed.
Lemma existsb_map {A B} (f : B -> bool) (g : A -> B) l : existsb f (map g l) = existsb (fun x => f (g x)) l.
Proof. induction l; cbn; congruence. Qed.

Lemma forallb_ext' {A} (f g : A -> bool) l : (forall x, f x = g x) -> forallb f l = forallb g l.
Proof. intros H. induction l; cbn; congruence. Qed.
Lemma existsb_ext' {A} (f g : A -> bool) l : (forall x, f x = g x) -> existsb f l = existsb g l.
Proof. intros H. induction l; cbn; congruence. Qed.

Lemma expand_node_eval fm v n : left_node_ok fm n = true ->
  eval_e (fun x => v (node_atom x)) (expand_node_e fm n) = doc_node fm v n.
Proof.
  unfold left_node_ok, node_accepted, expand_node_e, doc_node.
  destruct (fam_members fm (n_name n)) as [ms|].
  - intros H. apply andb_true_iff in H. destruct H as [H Hok].
    apply andb_true_iff in H. destruct H as [Hne _].
    destruct (n_qual n) as [q|]; [|discriminate].
    destruct (fam_entry_ok_spec q Hok) as [o [all [Hd Ht]]].
    rewrite Ht, Hd. cbn [eval_e].
    rewrite big_op_eval by (destruct ms; discriminate).
    destruct all.
    + rewrite forallb_map. apply forallb_ext'. intros m. apply member_expr_eval.
    + rewrite existsb_map. apply existsb_ext'. intros m. apply member_expr_eval.
  - intros _. apply member_expr_eval.
Qed.

Lemma expand_e_eval fm v e :
  forallb (left_node_ok fm) (nodes_e e) = true ->
  eval_e (fun x => v (node_atom x)) (expand_e fm e) = eval_e (doc_node fm v) e.
Proof.
  induction e as [n|e IH|a IHa b IHb|a IHa b IHb]; cbn [nodes_e expand_e eval_e]; intros H.
  - cbn in H. rewrite andb_true_r in H. now apply expand_node_eval.
  - auto.
  - rewrite forallb_app in H. apply andb_true_iff in H. destruct H. now rewrite IHa, IHb.
  - rewrite forallb_app in H. apply andb_true_iff in H. destruct H. now rewrite IHa, IHb.
Qed.

Lemma left_ok_accepted fm l :
  forallb (left_node_ok fm) l = true -> forallb (node_accepted fm) l = true.
Proof.
  rewrite !forallb_forall. intros H x Hx. specialize (H x Hx). unfold left_node_ok in H.
  apply andb_true_iff in H. tauto.
Qed.

(* ---- main theorem for the left side ---- *)
Theorem left_expression_meaning fm e v :
  wf_lvl 0 e = true ->
  forallb (left_node_ok fm) (nodes_e e) = true ->
  exists toks atoms,
    expand_left fm (print_e e) = Ok (toks, atoms)
    /\ eval_toks v toks = Some (eval_e (doc_node fm v) e).
Proof.
  intros Hwf Hok. pose proof (left_ok_accepted _ _ Hok) as Hacc.
  destruct (expand_left_print fm e Hacc) as [atoms E].
  exists (print_e (expand_e fm e)), atoms. split; [exact E|].
  rewrite eval_toks_print.
  - now rewrite expand_e_eval.
  - apply expand_e_wf; auto.
Qed.

(* the single family node, spelled out *)
Theorem family_lhs fm F ms off q o all opt v :
  In (q, o) alt_qualifiers ->
  fam_entry_ok (fam_qual q all) = true ->
  fam_members fm F = Some ms -> ms <> [] ->
  exists toks atoms,
    expand_left fm [TN (mkNode F off (Some (fam_qual q all)) opt)] = Ok (toks, atoms)
    /\ eval_toks v toks
       = Some (if all then forallb (member_holds v off o) ms
               else existsb (member_holds v off o) ms).
Proof.
  intros Hq Hok Hf Hne.
  set (n := mkNode F off (Some (fam_qual q all)) opt).
  assert (Hn : forallb (left_node_ok fm) (nodes_e (LN n)) = true).
  { cbn. rewrite andb_true_r. unfold left_node_ok, node_accepted. cbn [n n_name n_qual]. rewrite Hf.
    destruct (fam_entry_ok_spec _ Hok) as [o' [all' [_ Ht]]]. rewrite Ht, Hok.
    destruct ms; [congruence|reflexivity]. }
  destruct (left_expression_meaning fm (LN n) v eq_refl Hn) as [toks [atoms [E Ev]]].
  exists toks, atoms. split; [exact E|]. rewrite Ev. f_equal.
  cbn [eval_e]. unfold doc_node. cbn [n n_name n_qual n_off]. rewrite Hf.
  rewrite (doc_table_lookup q o all Hq). destruct all; reflexivity.
Qed.

(* ================= right-hand family nodes ================= *)

Lemma assoc_app_none {K V} (eqb : K -> K -> bool) (k : K) (l l2 : list (K * V)) :
  assoc eqb k l = None -> assoc eqb k (l ++ l2) = assoc eqb k l2.
Proof.
  induction l as [|[k' v'] r IH]; cbn; [auto|]. destruct (eqb k k'); [discriminate|auto].
Qed.

Lemma assoc_app_some {K V} (eqb : K -> K -> bool) (k : K) (l l2 : list (K * V)) x :
  assoc eqb k l = Some x -> assoc eqb k (l ++ l2) = Some x.
Proof.
  induction l as [|[k' v'] r IH]; cbn; [discriminate|]. destruct (eqb k k'); auto.
Qed.

Lemma assoc_upd_same {V} m (v : V) l : assoc Nat.eqb m (upd Nat.eqb m v l) = Some v.
Proof.
  induction l as [|[k' v'] r IH]; cbn; [now rewrite Nat.eqb_refl|].
  destruct (Nat.eqb m k') eqn:E; cbn; [now rewrite Nat.eqb_refl|now rewrite E].
Qed.

Lemma assoc_upd_other {V} m m2 (v : V) l : m2 <> m ->
  assoc Nat.eqb m2 (upd Nat.eqb m v l) = assoc Nat.eqb m2 l.
Proof.
  intros Hne. induction l as [|[k' v'] r IH]; cbn.
  - apply Nat.eqb_neq in Hne. now rewrite Hne.
  - destruct (Nat.eqb m k') eqn:E; cbn.
    + apply Nat.eqb_eq in E. subst k'. apply Nat.eqb_neq in Hne. now rewrite Hne.
    + destruct (Nat.eqb m2 k'); auto.
Qed.

Lemma set_opt1_new_inv om m o optional fam om' :
  assoc optkey_eqb (m, o) om = None ->
  set_opt1 om m o optional fam = Ok om' ->
  om' = om ++ [((m, o), (optional, optional, negb fam))].
Proof.
  unfold set_opt1. intros Hn. rewrite Hn.
  destruct ((String.eqb o TASK_OUTPUT_EXPIRED || String.eqb o TASK_OUTPUT_SUBMIT_FAILED) && negb optional);
    [discriminate|].
  cbn [bind]. destruct (opposite o) as [opp|]; [|congruence].
  destruct (assoc optkey_eqb (m, opp) (om ++ _)) as [[[oo od] ofx]|]; [|congruence].
  destruct (assoc optkey_eqb (m, o) (om ++ _)) as [[[o1 o2] o3]|]; [|discriminate].
  destruct (fam || negb ofx); destruct (negb o1 || negb od); destruct (negb o1 || negb oo); congruence.
Qed.

Definition fam_entries (m : name) (optional : bool) (outs : list string) : optmap :=
  map (fun o => ((m, o), (optional, optional, false))) outs.

Lemma optkey_eqb_true a b : optkey_eqb a b = true <-> a = b.
Proof.
  destruct a as [n1 s1], b as [n2 s2]. unfold optkey_eqb. cbn.
  rewrite andb_true_iff, Nat.eqb_eq, String.eqb_eq. split; [intros []; congruence|intros [= -> ->]; auto].
Qed.

Lemma optkey_eqb_false a b : a <> b -> optkey_eqb a b = false.
Proof. intros H. destruct (optkey_eqb a b) eqn:E; [apply optkey_eqb_true in E; contradiction|reflexivity]. Qed.

Lemma opt_fold_fresh m optional : forall outs om om',
  NoDup outs ->
  (forall o, In o outs -> String.eqb o TASK_OUTPUT_FINISHED = false) ->
  (forall o, In o outs -> assoc optkey_eqb (m, o) om = None) ->
  fold_res (fun om o => set_opt om m o optional false true) outs om = Ok om' ->
  om' = om ++ fam_entries m optional outs.
Proof.
  induction outs as [|o r IH]; intros om om' Hnd Hfin Hfresh H.
  - cbn in H. inversion H. now rewrite app_nil_r.
  - cbn [fold_res] in H. unfold set_opt at 1 in H. cbn [negb] in H.
    rewrite (Hfin o (or_introl eq_refl)) in H.
    destruct (set_opt1 om m o optional true) as [om1| |] eqn:E1; try discriminate.
    cbn [bind] in H.
    apply set_opt1_new_inv in E1; [|apply Hfresh; now left]. cbn [negb] in E1. subst om1.
    inversion Hnd as [|? ? Hnotin Hnd']; subst.
    apply IH in H; auto.
    + rewrite H. unfold fam_entries. cbn [map]. now rewrite <- app_assoc.
    + intros o2 Ho2. apply Hfin. now right.
    + intros o2 Ho2. rewrite assoc_app_none by (apply Hfresh; now right).
      cbn. rewrite optkey_eqb_false; [reflexivity|]. intros [= ->]. contradiction.
Qed.

Definition fam_step (expr : list tok) (atoms : list atom) (suicide optional : bool)
    (outs : list string) (st : pstate) (m : name) : res pstate :=
  bind (bind (set_trig (ps_trig st) m (mkTrig expr atoms suicide))
          (fun tm => Ok (mkState tm (ps_opt st) (ps_lefts st) (ps_rights st) (ps_ct st))))
    (fun st1 =>
       bind (fold_res (fun om o => set_opt om m o optional suicide true) outs (ps_opt st1))
         (fun om => Ok (mkState (ps_trig st1) om (ps_lefts st1) (ps_rights st1) (ps_ct st1)))).

Definition fresh_member (st : pstate) (m : name) : Prop :=
  assoc Nat.eqb m (ps_trig st) = None /\ forall o, assoc optkey_eqb (m, o) (ps_opt st) = None.

(* member m has received the trigger and the family default *)
Definition member_done (expr : list tok) (atoms : list atom) (suicide optional : bool)
    (outs : list string) (st : pstate) (m : name) : Prop :=
  assoc Nat.eqb m (ps_trig st) = Some [mkTrig expr atoms suicide]
  /\ (suicide = false ->
      forall o, In o outs -> assoc optkey_eqb (m, o) (ps_opt st) = Some (optional, optional, false)).

Lemma fold_suicide m optional outs : forall om,
  fold_res (fun om o => set_opt om m o optional true true) outs om = Ok om.
Proof. induction outs as [|o r IH]; intros om; cbn; [reflexivity|]. apply IH. Qed.

Lemma assoc_fam_entries_same m optional outs o :
  In o outs -> assoc optkey_eqb (m, o) (fam_entries m optional outs) = Some (optional, optional, false).
Proof.
  induction outs as [|o1 r IH]; cbn; [tauto|].
  destruct (optkey_eqb (m, o) (m, o1)) eqn:E; [reflexivity|].
  intros [->|Hin]; [|auto]. rewrite (proj2 (optkey_eqb_true _ _) eq_refl) in E. discriminate.
Qed.

Lemma assoc_fam_entries_other m m2 optional outs o :
  m2 <> m -> assoc optkey_eqb (m2, o) (fam_entries m optional outs) = None.
Proof.
  intros Hne. induction outs as [|o1 r IH]; cbn; [reflexivity|].
  rewrite optkey_eqb_false; [exact IH|]. intros [= -> _]. contradiction.
Qed.

Lemma fam_step_effect expr atoms suicide optional outs st m st' :
  NoDup outs -> (forall o, In o outs -> String.eqb o TASK_OUTPUT_FINISHED = false) ->
  fresh_member st m ->
  fam_step expr atoms suicide optional outs st m = Ok st' ->
  member_done expr atoms suicide optional outs st' m
  /\ forall m2, m2 <> m ->
       (fresh_member st m2 -> fresh_member st' m2)
       /\ (member_done expr atoms suicide optional outs st m2 ->
           member_done expr atoms suicide optional outs st' m2).
Proof.
  intros Hnd Hfin [Ft Fo] H. unfold fam_step in H.
  unfold set_trig in H. rewrite Ft in H. cbn [find_trig put_trig bind] in H.
  set (tm1 := upd Nat.eqb m [mkTrig expr atoms suicide] (ps_trig st)) in *.
  cbn [ps_opt ps_trig ps_lefts ps_rights ps_ct] in H.
  assert (Hom : exists om, ps_opt st' = om /\ ps_trig st' = tm1
                /\ (if suicide then om = ps_opt st
                    else om = ps_opt st ++ fam_entries m optional outs)).
  { destruct suicide.
    - rewrite fold_suicide in H. cbn [bind] in H. inversion H; subst. cbn. eauto.
    - destruct (fold_res _ outs (ps_opt st)) as [om| |] eqn:E; try discriminate.
      cbn [bind] in H. inversion H; subst. cbn. exists om. repeat split; auto.
      eapply opt_fold_fresh; eauto. }
  destruct Hom as [om [Ho [Htm Hshape]]].
  split.
  - split.
    + rewrite Htm. unfold tm1. apply assoc_upd_same.
    + intros -> o Ho'. rewrite Ho, Hshape. rewrite assoc_app_none by apply Fo.
      now apply assoc_fam_entries_same.
  - intros m2 Hne. split.
    + intros [Ft2 Fo2]. split.
      * rewrite Htm. unfold tm1. now rewrite assoc_upd_other.
      * intros o. rewrite Ho. destruct suicide; rewrite Hshape; [apply Fo2|].
        rewrite assoc_app_none by apply Fo2. now apply assoc_fam_entries_other.
    + intros [Dt Do]. split.
      * rewrite Htm. unfold tm1. now rewrite assoc_upd_other.
      * intros Hs o Ho'. subst suicide. rewrite Ho, Hshape.
        apply assoc_app_some. now apply Do.
Qed.

Lemma fam_fold_effect expr atoms suicide optional outs :
  NoDup outs -> (forall o, In o outs -> String.eqb o TASK_OUTPUT_FINISHED = false) ->
  forall ms st st',
  NoDup ms -> (forall m, In m ms -> fresh_member st m) ->
  fold_res (fam_step expr atoms suicide optional outs) ms st = Ok st' ->
  (forall m, In m ms -> member_done expr atoms suicide optional outs st' m)
  /\ (forall m, ~ In m ms -> member_done expr atoms suicide optional outs st m ->
                member_done expr atoms suicide optional outs st' m).
Proof.
  intros Hnd Hfin. induction ms as [|m r IH]; intros st st' Hndm Hfresh H.
  - cbn in H. inversion H; subst. split; [intros m []|auto].
  - cbn [fold_res] in H.
    destruct (fam_step expr atoms suicide optional outs st m) as [st1| |] eqn:E; try discriminate.
    cbn [bind] in H.
    destruct (fam_step_effect _ _ _ _ _ _ _ _ Hnd Hfin (Hfresh m (or_introl eq_refl)) E) as [Hdone Hother].
    inversion Hndm as [|? ? Hnotin Hndr]; subst.
    destruct (IH st1 st' Hndr) as [IH1 IH2]; [|exact H|].
    + intros m2 Hm2. apply (Hother m2); [intros ->; contradiction|]. apply Hfresh. now right.
    + split.
      * intros m2 [<-|Hm2]; [apply IH2; auto|apply IH1; auto].
      * intros m2 Hm2 Hd. apply IH2; [intros Hin; apply Hm2; now right|].
        apply (Hother m2); [intros ->; apply Hm2; now left|exact Hd].
Qed.

Lemma out_entry_ok_spec k : out_entry_ok k = true ->
  exists o all, assoc String.eqb k doc_fam_table = Some (o, all)
    /\ assoc String.eqb k fam_to_mem_output_map = Some (doc_outputs o)
    /\ String.prefix "finish" k = String.eqb o TASK_OUTPUT_FINISHED.
Proof.
  unfold out_entry_ok. destruct (assoc String.eqb k doc_fam_table) as [[o all]|]; [|discriminate].
  intros H. apply andb_true_iff in H. destruct H as [H1 H2].
  destruct (assoc String.eqb k fam_to_mem_output_map) as [l|]; [|discriminate].
  cbn in H1. apply (list_eqb_spec String.eqb String.eqb_eq) in H1. subst l.
  apply Bool.eqb_prop in H2. eauto.
Qed.

Lemma doc_outputs_nodup o : NoDup (doc_outputs o).
Proof.
  unfold doc_outputs. destruct (String.eqb o TASK_OUTPUT_FINISHED).
  - repeat constructor; cbn; intuition discriminate.
  - repeat constructor. intros [].
Qed.

Lemma doc_outputs_not_finished o o' : In o' (doc_outputs o) -> String.eqb o' TASK_OUTPUT_FINISHED = false.
Proof.
  unfold doc_outputs. destruct (String.eqb o TASK_OUTPUT_FINISHED) eqn:E.
  - intros [<-|[<-|[]]]; reflexivity.
  - intros [<-|[]]. exact E.
Qed.

(* proc_right on a (possibly suicide-marked) family node with a family qualifier *)
Lemma proc_right_family fm eoc expr atoms st F ms k o all opt (suicide : bool) :
  fam_members fm F = Some ms ->
  assoc String.eqb k doc_fam_table = Some (o, all) ->
  assoc String.eqb k fam_to_mem_output_map = Some (doc_outputs o) ->
  String.prefix "finish" k = String.eqb o TASK_OUTPUT_FINISHED ->
  proc_right fm eoc expr atoms st
    ((if suicide then [TBang] else []) ++ [TN (mkNode F 0 (Some k) opt)])
  = if String.eqb o TASK_OUTPUT_FINISHED && opt then GErr
    else fold_res (fam_step expr atoms suicide
                     (if String.eqb o TASK_OUTPUT_FINISHED then true else opt) (doc_outputs o)) ms st.
Proof.
  intros Hf Hd Ho Hp. unfold proc_right.
  assert (Hs : parse_rhs (strip_parens ((if suicide then [TBang] else []) ++ [TN (mkNode F 0 (Some k) opt)]))
               = Some (suicide, mkNode F 0 (Some k) opt)) by (destruct suicide; reflexivity).
  rewrite Hs. cbn [n_name n_qual n_opt n_off]. rewrite Hf, Hp, Ho.
  destruct (String.eqb o TASK_OUTPUT_FINISHED && opt); [reflexivity|].
  cbn [bind Nat.eqb]. reflexivity.
Qed.

Theorem family_rhs fm eoc expr atoms st F ms q o all opt (suicide : bool) st' :
  In (q, o) alt_qualifiers -> out_entry_ok (fam_qual q all) = true ->
  fam_members fm F = Some ms -> NoDup ms -> (forall m, In m ms -> fresh_member st m) ->
  proc_right fm eoc expr atoms st
    ((if suicide then [TBang] else []) ++ [TN (mkNode F 0 (Some (fam_qual q all)) opt)]) = Ok st' ->
  forall m, In m ms ->
    member_done expr atoms suicide (if String.eqb o TASK_OUTPUT_FINISHED then true else opt)
                (doc_outputs o) st' m.
Proof.
  intros Hq Hok Hf Hnd Hfresh H.
  destruct (out_entry_ok_spec _ Hok) as [o' [all' [Hd [Ho Hp]]]].
  rewrite (doc_table_lookup q o all Hq) in Hd. inversion Hd; subst o' all'.
  rewrite (proc_right_family fm eoc expr atoms st F ms _ o all opt suicide Hf
             (doc_table_lookup q o all Hq) Ho Hp) in H.
  destruct (String.eqb o TASK_OUTPUT_FINISHED && opt); [discriminate|].
  eapply fam_fold_effect in H; eauto.
  - tauto.
  - apply doc_outputs_nodup.
  - apply doc_outputs_not_finished.
Qed.

(* a family node without qualifier on the right of a non-empty trigger: trigger only *)
Theorem family_rhs_plain fm eoc expr atoms st F ms opt (suicide : bool) st' :
  expr <> [] ->
  fam_members fm F = Some ms -> NoDup ms -> (forall m, In m ms -> fresh_member st m) ->
  proc_right fm eoc expr atoms st
    ((if suicide then [TBang] else []) ++ [TN (mkNode F 0 None opt)]) = Ok st' ->
  (forall m, In m ms -> assoc Nat.eqb m (ps_trig st') = Some [mkTrig expr atoms suicide])
  /\ ps_opt st' = ps_opt st.
Proof.
  intros Hne Hf Hnd Hfresh H. unfold proc_right in H.
  assert (Hs : parse_rhs (strip_parens ((if suicide then [TBang] else []) ++ [TN (mkNode F 0 None opt)]))
               = Some (suicide, mkNode F 0 None opt)) by (destruct suicide; reflexivity).
  rewrite Hs in H. cbn [n_name n_qual n_opt n_off] in H. rewrite Hf in H.
  destruct expr as [|t0 e0]; [congruence|]. cbn [is_nil andb bind Nat.eqb] in H.
  change (fold_res (fam_step (t0 :: e0) atoms suicide opt []) ms st = Ok st') in H.
  split.
  - intros m Hm.
    assert (Hn : NoDup (@nil string)) by constructor.
    destruct (fam_fold_effect (t0 :: e0) atoms suicide opt [] Hn (fun o (F : In o []) => match F with end)
                ms st st' Hnd Hfresh H) as [H1 _].
    exact (proj1 (H1 m Hm)).
  - clear Hfresh Hnd Hf. revert st H. induction ms as [|m r IH]; intros st H.
    + cbn in H. now inversion H.
    + cbn [fold_res] in H.
      destruct (fam_step (t0 :: e0) atoms suicide opt [] st m) as [st1| |] eqn:E; try discriminate.
      cbn [bind] in H. rewrite (IH st1 H).
      unfold fam_step in E.
      destruct (set_trig (ps_trig st) m _) as [tm| |]; try discriminate.
      cbn in E. now inversion E.
Qed.

(* ================= status of today's tables ================= *)

Lemma lhs_entries_ok q o all :
  In (q, o) alt_qualifiers ->
  fam_entry_ok (fam_qual q all) = true.
Proof.
  intros Hq.
  assert (F : forallb (fun qo => forallb (fun a =>
                fam_entry_ok (fam_qual (fst qo) a))
              [true; false]) alt_qualifiers = true) by (vm_compute; reflexivity).
  rewrite forallb_forall in F. specialize (F _ Hq). cbn [fst] in F.
  rewrite forallb_forall in F. specialize (F all (ltac:(destruct all; cbn; auto))).
  exact F.
Qed.

Lemma rhs_entries_ok q o all :
  In (q, o) alt_qualifiers -> out_entry_ok (fam_qual q all) = true.
Proof.
  intros Hq.
  assert (F : forallb (fun qo => forallb (fun a => out_entry_ok (fam_qual (fst qo) a)) [true; false])
                alt_qualifiers = true) by (vm_compute; reflexivity).
  rewrite forallb_forall in F. specialize (F _ Hq). cbn [fst] in F.
  rewrite forallb_forall in F. apply F. destruct all; cbn; auto.
Qed.

(* both generated tables have exactly the documented qualifiers as keys *)
Lemma table_domains :
  let keys := map fst doc_fam_table in
  forallb (fun k => mem String.eqb k keys) (map fst fam_to_mem_trigger_map) = true
  /\ forallb (fun k => mem String.eqb k (map fst fam_to_mem_trigger_map)) keys = true
  /\ forallb (fun k => mem String.eqb k keys) (map fst fam_to_mem_output_map) = true
  /\ forallb (fun k => mem String.eqb k (map fst fam_to_mem_output_map)) keys = true.
Proof. vm_compute. auto. Qed.
