(* Proofs/C3Proofs.v — lemmas about Model/C3.v *)
From Coq Require Import List Bool Arith Lia.
From Cylc Require Import Base.Util Model.C3.
Import ListNotations.

(* ---------- specification vocabulary ---------- *)
Inductive subseq {A} : list A -> list A -> Prop :=
| sub_nil : forall l, subseq [] l
| sub_take : forall x s l, subseq s l -> subseq (x :: s) (x :: l)
| sub_skip : forall x s l, subseq s l -> subseq s (x :: l).

(* a linear order [l] is consistent with the sequences when it has no
   duplicates and contains each of them as a subsequence *)
Definition consistent (seqs : list (list name)) (l : list name) : Prop :=
  NoDup l /\ forall s, In s seqs -> subseq s l.

Lemma subseq_In {A} (s l : list A) x : subseq s l -> In x s -> In x l.
Proof. induction 1; cbn; intros Hx; [tauto| |auto]. destruct Hx; auto. Qed.

Lemma mem_nat_In x l : mem Nat.eqb x l = true <-> In x l.
Proof. apply mem_In. intros a b. rewrite Nat.eqb_eq. split; auto. Qed.

Lemma nat_mem_false x l : mem Nat.eqb x l = false <-> ~ In x l.
Proof. rewrite <- mem_nat_In. destruct (mem Nat.eqb x l); split; congruence. Qed.

(* ---------- filter / length ---------- *)
Lemma total_len_filter seqs : total_len (filter nonempty seqs) = total_len seqs.
Proof.
  unfold total_len, sum_nat. induction seqs as [|s r IH]; cbn; [reflexivity|].
  destruct s; cbn; auto.
Qed.

Lemma filter_nonempty_all seqs s : In s (filter nonempty seqs) -> s <> [].
Proof. rewrite filter_In. intros [_ H] ->. discriminate. Qed.

(* ---------- find_cand ---------- *)
Lemma find_cand_some todo all c :
  find_cand todo all = Some c ->
  (exists t, In (c :: t) todo) /\ existsb (in_tail c) all = false.
Proof.
  induction todo as [|s r IH]; cbn; [discriminate|].
  destruct s as [|h t].
  - intros H. destruct (IH H) as [[t' Ht] E]. split; eauto.
  - destruct (existsb (in_tail h) all) eqn:E.
    + intros H. destruct (IH H) as [[t' Ht] E']. split; eauto.
    + intros [= <-]. split; eauto.
Qed.

Lemma find_cand_none todo all :
  find_cand todo all = None ->
  forall h t, In (h :: t) todo -> existsb (in_tail h) all = true.
Proof.
  induction todo as [|s r IH]; cbn; [tauto|].
  destruct s as [|h0 t0].
  - intros H h t [E|Hin]; [discriminate|eauto].
  - destruct (existsb (in_tail h0) all) eqn:E; [|discriminate].
    intros H h t [Eq|Hin]; [inversion Eq; subst; exact E|eauto].
Qed.

(* ---------- drop_head decreases the measure ---------- *)
Lemma drop_head_len c s : length (drop_head c s) <= length s.
Proof. destruct s as [|h t]; cbn; [lia|]. destruct (Nat.eqb h c); cbn; lia. Qed.

Lemma total_len_drop c seqs :
  total_len (map (drop_head c) seqs) <= total_len seqs.
Proof.
  unfold total_len, sum_nat. induction seqs as [|s r IH]; cbn; [lia|].
  pose proof (drop_head_len c s). lia.
Qed.

Lemma total_len_drop_lt c t seqs :
  In (c :: t) seqs -> total_len (map (drop_head c) seqs) < total_len seqs.
Proof.
  unfold total_len, sum_nat. induction seqs as [|s r IH]; cbn; [tauto|].
  intros [->|Hin].
  - cbn. rewrite Nat.eqb_refl. pose proof (total_len_drop c r) as Hd. unfold total_len, sum_nat in Hd. lia.
  - pose proof (drop_head_len c s). specialize (IH Hin). lia.
Qed.

(* ---------- fuel adequacy ---------- *)
Lemma merge_fuel fuel label seqs :
  total_len seqs < fuel -> merge fuel label seqs <> OutOfFuel.
Proof.
  revert seqs; induction fuel as [|f IH]; intros seqs Hlt; [lia|].
  cbn [merge]. remember (filter nonempty seqs) as ne eqn:Ene.
  destruct ne as [|s0 r0]; [discriminate|].
  destruct (find_cand (s0 :: r0) (s0 :: r0)) as [c|] eqn:Ec; [|discriminate].
  apply find_cand_some in Ec. destruct Ec as [[t Ht] _].
  pose proof (total_len_drop_lt c t _ Ht) as Hd.
  assert (Hne : total_len (s0 :: r0) = total_len seqs)
    by (rewrite Ene; apply total_len_filter).
  specialize (IH (map (drop_head c) (s0 :: r0))).
  destruct (merge f label (map (drop_head c) (s0 :: r0))); try discriminate.
  apply IH. lia.
Qed.

(* ---------- soundness: the result embeds every input sequence ---------- *)
Lemma subseq_drop_head c s l :
  subseq (drop_head c s) l -> subseq s (c :: l).
Proof.
  destruct s as [|h t]; cbn; [intros _; constructor|].
  destruct (Nat.eqb_spec h c) as [->|Hne]; intros H.
  - now constructor.
  - now apply sub_skip.
Qed.

Lemma merge_sound fuel label seqs l :
  merge fuel label seqs = Ok l -> forall s, In s seqs -> subseq s l.
Proof.
  revert seqs l; induction fuel as [|f IH]; intros seqs l; cbn [merge]; [discriminate|].
  remember (filter nonempty seqs) as ne eqn:Ene.
  destruct ne as [|s0 r0].
  - intros [= <-] s Hs. destruct s as [|h t]; [constructor|].
    assert (In (h :: t) (filter nonempty seqs)) by (apply filter_In; split; auto).
    rewrite <- Ene in H. destruct H.
  - destruct (find_cand (s0 :: r0) (s0 :: r0)) as [c|] eqn:Ec; [|discriminate].
    destruct (merge f label (map (drop_head c) (s0 :: r0))) as [l'| | |] eqn:Em; try discriminate.
    intros [= <-] s Hs. destruct s as [|h t]; [constructor|].
    assert (Hin : In (h :: t) (s0 :: r0))
      by (rewrite Ene; apply filter_In; split; auto).
    apply subseq_drop_head. eapply IH; [exact Em|]. now apply in_map.
Qed.

(* every element of the result comes from some input sequence *)
Lemma merge_elems fuel label seqs l :
  merge fuel label seqs = Ok l -> forall x, In x l -> exists s, In s seqs /\ In x s.
Proof.
  revert seqs l; induction fuel as [|f IH]; intros seqs l; cbn [merge]; [discriminate|].
  remember (filter nonempty seqs) as ne eqn:Ene.
  destruct ne as [|s0 r0]; [intros [= <-] x []|].
  destruct (find_cand (s0 :: r0) (s0 :: r0)) as [c|] eqn:Ec; [|discriminate].
  destruct (merge f label (map (drop_head c) (s0 :: r0))) as [l'| | |] eqn:Em; try discriminate.
  intros [= <-] x [<-|Hx].
  - apply find_cand_some in Ec. destruct Ec as [[t Ht] _].
    exists (c :: t). split; [|now left].
    rewrite Ene in Ht. apply filter_In in Ht. tauto.
  - destruct (IH _ _ Em x Hx) as [s' [Hs' Hxs']].
    apply in_map_iff in Hs'. destruct Hs' as [s [<- Hs]].
    exists s. split.
    + rewrite Ene in Hs. apply filter_In in Hs. tauto.
    + destruct s as [|h t]; cbn in Hxs'; [tauto|].
      destruct (Nat.eqb h c); [now right|exact Hxs'].
Qed.

(* ---------- the result has no duplicates ---------- *)
Lemma drop_head_NoDup c s : NoDup s -> NoDup (drop_head c s).
Proof.
  destruct s as [|h t]; cbn; [auto|]. intros H.
  destruct (Nat.eqb h c); [now inversion H|exact H].
Qed.

Lemma cand_not_in_dropped c seqs :
  existsb (in_tail c) seqs = false ->
  (forall s, In s seqs -> NoDup s) ->
  forall s, In s (map (drop_head c) seqs) -> ~ In c s.
Proof.
  intros Hex Hnd s Hs. apply in_map_iff in Hs. destruct Hs as [s' [<- Hs']].
  assert (Ht : in_tail c s' = false).
  { destruct (in_tail c s') eqn:E; [|reflexivity].
    assert (existsb (in_tail c) seqs = true) by (apply existsb_exists; eauto). congruence. }
  unfold in_tail in Ht. apply nat_mem_false in Ht.
  destruct s' as [|h t]; cbn; [tauto|]. cbn in Ht.
  destruct (Nat.eqb_spec h c) as [->|Hne]; [exact Ht|].
  intros [E|E]; [congruence|tauto].
Qed.

Lemma merge_NoDup fuel label seqs l :
  (forall s, In s seqs -> NoDup s) ->
  merge fuel label seqs = Ok l -> NoDup l.
Proof.
  revert seqs l; induction fuel as [|f IH]; intros seqs l Hnd; cbn [merge]; [discriminate|].
  remember (filter nonempty seqs) as ne eqn:Ene.
  destruct ne as [|s0 r0]; [intros [= <-]; constructor|].
  destruct (find_cand (s0 :: r0) (s0 :: r0)) as [c|] eqn:Ec; [|discriminate].
  destruct (merge f label (map (drop_head c) (s0 :: r0))) as [l'| | |] eqn:Em; try discriminate.
  intros [= <-].
  assert (Hnd' : forall s, In s (s0 :: r0) -> NoDup s).
  { intros s Hs. rewrite Ene in Hs. apply filter_In in Hs. apply Hnd; tauto. }
  apply find_cand_some in Ec. destruct Ec as [_ Hex].
  constructor.
  - intros Hc. destruct (merge_elems _ _ _ _ Em c Hc) as [s [Hs Hcs]].
    exact (cand_not_in_dropped c _ Hex Hnd' s Hs Hcs).
  - eapply IH; [|exact Em]. intros s Hs. apply in_map_iff in Hs.
    destruct Hs as [s' [<- Hs']]. apply drop_head_NoDup. auto.
Qed.

(* ---------- rejection is justified: no consistent order exists ---------- *)
Lemma subseq_cons_inv {A} (h : A) t x l :
  subseq (h :: t) (x :: l) -> (h = x /\ subseq t l) \/ subseq (h :: t) l.
Proof. intros H; inversion H; subst; auto. Qed.

Lemma no_head_no_order ne :
  ne <> [] -> (forall s, In s ne -> s <> []) ->
  (forall h t, In (h :: t) ne -> existsb (in_tail h) ne = true) ->
  forall l, ~ consistent ne l.
Proof.
  intros Hne Hall Hheads l. induction l as [|x l IH]; intros [Hnd Hsub].
  - destruct ne as [|s r]; [congruence|].
    specialize (Hsub s (or_introl eq_refl)). specialize (Hall s (or_introl eq_refl)).
    inversion Hsub; congruence.
  - destruct (existsb (fun s => match s with h :: _ => Nat.eqb h x | [] => false end) ne) eqn:Ehead.
    + apply existsb_exists in Ehead. destruct Ehead as [s0 [Hs0 E0]].
      destruct s0 as [|h0 t0]; [discriminate|]. apply Nat.eqb_eq in E0. subst h0.
      pose proof (Hheads _ _ Hs0) as Hex. apply existsb_exists in Hex.
      destruct Hex as [s1 [Hs1 E1]]. unfold in_tail in E1. apply mem_nat_In in E1.
      destruct s1 as [|h1 t1]; [destruct E1|]. cbn in E1.
      inversion Hnd as [|? ? Hx _]; subst.
      destruct (subseq_cons_inv _ _ _ _ (Hsub _ Hs1)) as [[_ Hs]|Hs].
      * apply Hx. eapply subseq_In; eauto.
      * apply Hx. eapply subseq_In; [exact Hs|now right].
    + apply IH. split; [now inversion Hnd|].
      intros s Hs. specialize (Hsub s Hs). destruct s as [|h t]; [constructor|].
      destruct (subseq_cons_inv _ _ _ _ Hsub) as [[-> _]|H']; [|exact H'].
      assert (existsb (fun s => match s with h :: _ => Nat.eqb h x | [] => false end) ne = true).
      { apply existsb_exists. exists (x :: t). split; [exact Hs|apply Nat.eqb_refl]. }
      congruence.
Qed.

Lemma subseq_remove s l c :
  subseq s l -> ~ In c s -> subseq s (remove Nat.eq_dec c l).
Proof.
  induction 1 as [l|x s l H IH|x s l H IH]; intros Hc; cbn.
  - constructor.
  - destruct (Nat.eq_dec c x) as [->|Hne]; [exfalso; apply Hc; now left|].
    constructor. apply IH. intros Hin; apply Hc; now right.
  - destruct (Nat.eq_dec c x); [auto|apply sub_skip; auto].
Qed.

Lemma NoDup_remove_nat c l : NoDup l -> NoDup (remove Nat.eq_dec c l).
Proof.
  induction 1 as [|x l Hx Hnd IH]; cbn; [constructor|].
  destruct (Nat.eq_dec c x); [exact IH|].
  constructor; [|exact IH]. intros Hin. apply in_remove in Hin. tauto.
Qed.

Lemma subseq_tail {A} (h : A) t l : subseq (h :: t) l -> subseq t l.
Proof.
  induction l as [|x l IH]; intros H; inversion H; subst.
  - now apply sub_skip.
  - apply sub_skip. auto.
Qed.

Lemma consistent_drop c ne l :
  existsb (in_tail c) ne = false ->
  (forall s, In s ne -> NoDup s) ->
  consistent ne l -> consistent (map (drop_head c) ne) (remove Nat.eq_dec c l).
Proof.
  intros Hex Hnd [Hl Hsub]. split; [now apply NoDup_remove_nat|].
  intros s Hs. pose proof (cand_not_in_dropped c ne Hex Hnd s Hs) as Hc.
  apply in_map_iff in Hs. destruct Hs as [s' [<- Hs']].
  apply subseq_remove; [|exact Hc].
  specialize (Hsub _ Hs'). destruct s' as [|h t]; cbn; [constructor|].
  destruct (Nat.eqb h c); [eapply subseq_tail; eauto|exact Hsub].
Qed.

Lemma consistent_filter seqs l :
  consistent seqs l -> consistent (filter nonempty seqs) l.
Proof.
  intros [H1 H2]. split; [exact H1|]. intros s Hs. apply filter_In in Hs. apply H2; tauto.
Qed.

Lemma merge_reject_sound fuel label seqs lb :
  (forall s, In s seqs -> NoDup s) ->
  merge fuel label seqs = Inconsistent lb ->
  forall l, ~ consistent seqs l.
Proof.
  revert seqs; induction fuel as [|f IH]; intros seqs Hnd; cbn [merge]; [discriminate|].
  remember (filter nonempty seqs) as ne eqn:Ene.
  assert (Hnd' : forall s, In s ne -> NoDup s).
  { intros s Hs. rewrite Ene in Hs. apply filter_In in Hs. apply Hnd; tauto. }
  destruct ne as [|s0 r0]; [discriminate|].
  destruct (find_cand (s0 :: r0) (s0 :: r0)) as [c|] eqn:Ec.
  - destruct (merge f label (map (drop_head c) (s0 :: r0))) as [l'| | |] eqn:Em; try discriminate.
    intros [= <-] l Hcons. apply consistent_filter in Hcons. rewrite <- Ene in Hcons.
    apply find_cand_some in Ec. destruct Ec as [_ Hex].
    refine (IH _ _ Em _ (consistent_drop c _ l Hex Hnd' Hcons)).
    intros s Hs. apply in_map_iff in Hs. destruct Hs as [s' [<- Hs']].
    apply drop_head_NoDup. auto.
  - intros _ l Hcons. apply consistent_filter in Hcons. rewrite <- Ene in Hcons.
    refine (no_head_no_order (s0 :: r0) _ _ _ l Hcons); [discriminate| |].
    + intros s Hs. rewrite Ene in Hs. eapply filter_nonempty_all; eauto.
    + intros h t Hin. eapply find_cand_none; eauto.
Qed.

(* ---------- completeness: accepted whenever a consistent order exists ---------- *)
Lemma merge_complete fuel label seqs l :
  (forall s, In s seqs -> NoDup s) ->
  total_len seqs < fuel ->
  consistent seqs l -> exists l', merge fuel label seqs = Ok l'.
Proof.
  intros Hnd Hf Hc.
  destruct (merge fuel label seqs) as [l'|lb| |] eqn:E; [eauto| | |].
  - exfalso. eapply merge_reject_sound; eauto.
  - exfalso. revert E. clear. revert seqs.
    induction fuel as [|f IH]; intros seqs; cbn [merge]; [discriminate|].
    destruct (filter nonempty seqs) as [|s0 r0]; [discriminate|].
    destruct (find_cand (s0 :: r0) (s0 :: r0)) as [c|]; [|discriminate].
    destruct (merge f label (map (drop_head c) (s0 :: r0))) eqn:Em; try discriminate.
    intros _. eapply IH; eauto.
  - exfalso. eapply merge_fuel; eauto.
Qed.

(* ---------- local precedence at the level of mro ---------- *)
Lemma all_ok_In {A} (l : list (res A)) ls :
  all_ok l = Ok ls -> forall a, In a ls -> In (Ok a) l.
Proof.
  revert ls; induction l as [|r l IH]; cbn; intros ls.
  - intros [= <-] a [].
  - destruct r as [a0| | |]; try discriminate.
    destruct (all_ok l) as [l'| | |]; try discriminate.
    intros [= <-] a [<-|Ha]; [now left|right; eauto].
Qed.

Lemma all_ok_Forall {A} (P : A -> Prop) (l : list (res A)) ls :
  (forall a, In (Ok a) l -> P a) -> all_ok l = Ok ls -> Forall P ls.
Proof.
  revert ls; induction l as [|r l IH]; cbn; intros ls HP.
  - intros [= <-]. constructor.
  - destruct r as [a0| | |]; try discriminate.
    destruct (all_ok l) as [l'| | |]; try discriminate.
    intros [= <-]. constructor; [apply HP; now left|apply IH; auto].
Qed.

Definition tree_NoDup (t : tree) : Prop :=
  forall c ps, assoc Nat.eqb c t = Some ps -> NoDup ps.

Lemma mro_NoDup depth t c l :
  tree_NoDup t -> mro depth t c = Ok l -> NoDup l.
Proof.
  intros Ht. revert c l; induction depth as [|d IH]; intros c l; cbn [mro]; [discriminate|].
  destruct (assoc Nat.eqb c t) as [ps|] eqn:Ea; [|discriminate].
  destruct (all_ok (map (mro d t) ps)) as [ls| | |] eqn:El; try discriminate.
  apply merge_NoDup. intros s Hs. apply in_app_or in Hs. destruct Hs as [[<-|[]]|Hs].
  - repeat constructor. intros [].
  - apply in_app_or in Hs. destruct Hs as [Hs|[<-|[]]]; [|eapply Ht; eauto].
    assert (F : Forall (@NoDup name) ls).
    { eapply all_ok_Forall; [|exact El]. intros a Ha. apply in_map_iff in Ha.
      destruct Ha as [p [Hp _]]. eapply IH; eauto. }
    rewrite Forall_forall in F. auto.
Qed.

(* what the linearization of [c] contains, in which order *)
Lemma mro_sound depth t c l :
  mro depth t c = Ok l ->
  exists ps ls,
    assoc Nat.eqb c t = Some ps /\
    all_ok (map (mro (pred depth) t) ps) = Ok ls /\
    subseq [c] l /\                       (* c itself is there *)
    subseq ps l /\                        (* local precedence order *)
    (forall lp, In lp ls -> subseq lp l)  (* monotonicity *).
Proof.
  destruct depth as [|d]; cbn [mro pred]; [discriminate|].
  destruct (assoc Nat.eqb c t) as [ps|] eqn:Ea; [|discriminate].
  destruct (all_ok (map (mro d t) ps)) as [ls| | |] eqn:El; try discriminate.
  intros H. exists ps, ls. repeat split; auto.
  - eapply merge_sound; [exact H|]. now left.
  - eapply merge_sound; [exact H|]. apply in_or_app. right. apply in_or_app. right. now left.
  - intros lp Hlp. eapply merge_sound; [exact H|]. apply in_or_app. right. apply in_or_app. now left.
Qed.

(* a rejected hierarchy really has no consistent order at the rejecting node:
   stated at the merge level in [merge_reject_sound]. *)
