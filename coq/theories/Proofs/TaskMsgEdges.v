(* Proofs/TaskMsgEdges.v - status edges, lifecycle, stale/backward/retry-window lemmas (C09, C10) *)
From Coq Require Import List Bool Arith ZArith Lia.
From Cylc Require Import Base.Util Gen.TaskMsgTables Model.TaskMsg Proofs.TaskMsgProofs Proofs.TaskMsgInv.
Import ListNotations.

(* ====================================================================== *)
(* Part 5: status edges (C09)                                              *)
(* ====================================================================== *)
(* the edges a message with flag class r (true = received) can take *)
Definition edge_ok (m : msg) (r : bool) (a b : status) : bool :=
  match m with
  | MOther | MCustom _ => false
  | MExpired => status_eqb b Expired
  | MSubmitted => status_eqb a Preparing && status_eqb b Submitted
  | MStarted => status_eqb b Running && (negb r || (rk a <=? rk Running))
  | MSucceeded => status_eqb b Succeeded
  | MFailed =>
      (status_eqb b Failed || (status_eqb b Waiting && negb (status_eqb a Failed)))
      && (negb r || (rk a <=? rk Failed))
  | MSubFail =>
      (status_eqb b SubmitFailed || (status_eqb b Waiting && negb (status_eqb a SubmitFailed)))
      && (negb r || (rk a <=? rk SubmitFailed))
  end.
Definition op_edge (o : op) (a b : status) : bool :=
  match o with
  | OpPrep => status_eqb a Waiting && status_eqb b Preparing
  | OpSubRes ok => edge_ok (if ok then MSubmitted else MSubFail) false a b
  | OpMsg m f _ => edge_ok m (flag_received f) a b
  end.

Lemma no_next_None x : no_next x = true -> next_of x = None.
Proof. unfold no_next. destruct (next_of x); [discriminate|reflexivity]. Qed.

Lemma pm_edges t m f n : wf t ->
  st (fst (process_message t m f n)) = st t \/
  edge_ok m (flag_received f) (st t) (st (fst (process_message t m f n))) = true.
Proof.
  intros W. destruct (check t m f n) eqn:C; [|rewrite pm_ignored by exact C; left; reflexivity].
  rewrite (wfp_st t m f n C).
  pose proof (wf_hs t W) as W1. pose proof (wf_ht t W) as W2.
  pose proof (wf_failed t W) as W6. pose proof (wf_subfailed t W) as W7.
  rewrite <- hs_In in W1. rewrite <- ht_In in W2.
  unfold ctl_next, ctl_of, mid_st. cbn [c_st c_exec c_sub].
  destruct (st t) eqn:S; destruct (hs t) eqn:Hs; destruct (ht t) eqn:Ht; cbn in W1, W2;
    try (specialize (W1 ltac:(lia)); discriminate W1); try (specialize (W2 ltac:(lia)); discriminate W2);
    try (rewrite (no_next_None _ (W6 eq_refl))); try (rewrite (no_next_None _ (W7 eq_refl)));
    destruct m; destruct (flag_received f); cbn;
    repeat match goal with
           | |- context [match next_of ?x with _ => _ end] => destruct (next_of x)
           end; cbn; auto.
Qed.

Lemma prep_raw_st t : st (prep_raw t) = Preparing.
Proof.
  unfold prep_raw. destruct (status_eqb (st t) Preparing) eqn:E; cbn; [apply status_eqb_eq; exact E|reflexivity].
Qed.

Lemma step_edges t o : wf t ->
  st (fst (step t o)) = st t \/ op_edge o (st t) (st (fst (step t o))) = true.
Proof.
  intros W. destruct o as [|ok|m f rel]; cbn [step op_edge].
  - unfold preppable. destruct (status_eqb (st t) Waiting) eqn:E1; cbn [orb fst].
    + rewrite prep_raw_st. right. reflexivity.
    + destruct (status_eqb (st t) Preparing) eqn:E2; cbn [fst]; [|left; reflexivity].
      rewrite prep_raw_st. left. symmetry. apply status_eqb_eq. exact E2.
  - apply (pm_edges t _ Internal _ W).
  - apply pm_edges. exact W.
Qed.

(* every step of every run from the fresh task takes an edge of the table *)
Fixpoint trace_edges (t : task) (ops : list op) : Prop :=
  match ops with
  | [] => True
  | o :: r =>
      (st (fst (step t o)) = st t \/ op_edge o (st t) (st (fst (step t o))) = true)
      /\ trace_edges (fst (step t o)) r
  end.
Lemma trace_edges_wf t ops : wf t -> trace_edges t ops.
Proof.
  revert t. induction ops as [|o r IH]; intros t W; cbn; [exact I|].
  split; [apply step_edges; exact W|apply IH; apply wf_step; exact W].
Qed.

(* ---------- exactness: every edge of the table is taken in some run ---------- *)
Definition all_statuses : list status := statuses_ordered.
Definition edge_msgs : list msg := [MSubmitted; MStarted; MSucceeded; MFailed; MSubFail; MExpired].
Definition reach_paths : list (list op) :=
  [ []; [OpMsg MExpired Internal 0%Z]; [OpPrep]; [OpPrep; OpMsg MExpired Internal 0%Z];
    [OpPrep; OpSubRes false]; [OpPrep; OpSubRes true];
    [OpPrep; OpMsg MStarted Received 0%Z]; [OpPrep; OpMsg MFailed Received 0%Z];
    [OpPrep; OpMsg MSucceeded Received 0%Z] ].
Definition reach_setups : list (nat * nat * list op) :=
  flat_map (fun nm => map (fun p => (fst nm, snd nm, p)) reach_paths) [(0,0); (1,1); (1,0); (0,1)].
Definition flag_of (r : bool) : flag := if r then Received else Polled.
Definition reaches (m : msg) (r : bool) (a b : status) : bool :=
  existsb (fun s => let t := final (fresh (fst (fst s)) (snd (fst s)) 1) (snd s) in
                    status_eqb (st t) a &&
                    status_eqb (st (fst (step t (OpMsg m (flag_of r) 0%Z)))) b) reach_setups.
Lemma reach_table :
  forallb (fun m => forallb (fun r => forallb (fun a => forallb (fun b =>
    implb (edge_ok m r a b && negb (status_eqb a b)) (reaches m r a b))
    all_statuses) all_statuses) [true; false]) edge_msgs = true.
Proof. vm_compute. reflexivity. Qed.

Lemma all_statuses_In s : In s all_statuses.
Proof. destruct s; cbn; tauto. Qed.

Lemma edges_reachable m r a b :
  edge_ok m r a b = true -> a <> b ->
  exists n mm pre f,
    flag_received f = r /\
    st (final (fresh n mm 1) pre) = a /\
    st (fst (step (final (fresh n mm 1) pre) (OpMsg m f 0%Z))) = b.
Proof.
  intros E N.
  assert (Hm : In m edge_msgs).
  { destruct m; cbn in E; try discriminate; cbn; tauto. }
  pose proof reach_table as T. rewrite forallb_forall in T. specialize (T m Hm).
  rewrite forallb_forall in T.
  assert (Hr : In r [true; false]) by (destruct r; cbn; tauto).
  specialize (T r Hr). rewrite forallb_forall in T. specialize (T a (all_statuses_In a)).
  rewrite forallb_forall in T. specialize (T b (all_statuses_In b)).
  cbn beta in T. rewrite E in T. apply status_eqb_neq in N. rewrite N in T. cbn [andb negb implb] in T.
  unfold reaches in T. apply existsb_exists in T. destruct T as [[[n mm] pre] [_ H]].
  cbn [fst snd] in H. apply andb_true_iff in H. destruct H as [H1 H2].
  apply status_eqb_eq in H1. apply status_eqb_eq in H2.
  exists n, mm, pre, (flag_of r). split; [destruct r; reflexivity|]. auto.
Qed.

(* ---------- back to waiting only through a retry ---------- *)
Definition retried (t t' : task) (e : list effect) : Prop :=
  (In (ERetry false) e /\ exists x', next_of (texec t) = Some x' /\ texec t' = Some x') \/
  (In (ERetry true) e /\ exists x', next_of (tsub t) = Some x' /\ tsub t' = Some x').

Lemma pm_to_waiting t m f n :
  st (fst (process_message t m f n)) = Waiting -> st t <> Waiting ->
  retried t (fst (process_message t m f n)) (snd (process_message t m f n)).
Proof.
  destruct (check t m f n) eqn:C; [|rewrite pm_ignored by exact C; cbn; congruence].
  unfold retried.
  rewrite (wfp_st t m f n C), (wfp_exec t m f n C), (wfp_sub t m f n C), (pm_eff t m f n C).
  unfold ctl_next, ctl_of, eff_next, mid_st, imp_eff. cbn [c_st c_exec c_sub].
  destruct (hs t), (ht t); destruct m; cbn [c_st c_exec c_sub];
    repeat match goal with
           | |- context [if ?b then _ else _] => destruct b
           | |- context [match next_of ?x with _ => _ end] => destruct (next_of x) eqn:?
           end; cbn [c_st c_exec c_sub]; intros H N; try discriminate H; try congruence;
    try (apply psub_st_eq in H; [congruence|discriminate]).
  all: try (left; split; [apply in_or_app; right; cbn; auto|eexists; split; reflexivity]).
  all: try (right; split; [cbn; auto|eexists; split; reflexivity]).
Qed.

Lemma step_to_waiting t o :
  st (fst (step t o)) = Waiting -> st t <> Waiting ->
  retried t (fst (step t o)) (snd (step t o)).
Proof.
  destruct o as [|ok|m f rel]; cbn [step].
  - destruct (preppable t); cbn [fst]; [rewrite prep_raw_st; discriminate|congruence].
  - apply pm_to_waiting.
  - apply pm_to_waiting.
Qed.

(* ---------- received messages only move forward ---------- *)
Lemma edge_received_forward m a b :
  edge_ok m true a b = true -> (m = MExpired -> a = Waiting) ->
  a = b \/ rk a < rk b \/ b = Waiting.
Proof.
  destruct m; cbn [edge_ok]; intros E X; try discriminate E.
  - destruct a, b; cbn in E; try discriminate E; cbn; auto; lia.
  - destruct a, b; cbn in E; try discriminate E; cbn; auto; lia.
  - destruct a, b; cbn in E; try discriminate E; cbn; auto; lia.
  - destruct a, b; cbn in E; try discriminate E; cbn; auto; lia.
  - destruct a, b; cbn in E; try discriminate E; cbn; auto; lia.
  - rewrite (X eq_refl). destruct b; cbn in E; try discriminate E; cbn; auto; lia.
Qed.

Lemma pm_received_forward t m n : wf t -> (m = MExpired -> st t = Waiting) ->
  let t' := fst (process_message t m Received n) in
  st t' = st t \/ rk (st t) < rk (st t') \/ st t' = Waiting.
Proof.
  intros W X. cbn zeta. destruct (pm_edges t m Received n W) as [E|E]; [left; exact E|].
  destruct (edge_received_forward _ _ _ E X) as [H|[H|H]]; auto.
Qed.

(* ---------- the lifecycle under a consistent environment ---------- *)
Definition lifecycle_edge (a b : status) : bool :=
  ((rk a <? rk b) || (status_eqb a Submitted && status_eqb b SubmitFailed))
  && (negb (status_eqb b Expired) || status_eqb a Waiting)
  && (negb (status_eqb b SubmitFailed) || status_eqb a Preparing || status_eqb a Submitted).
Definition pre_start (a : status) : bool := status_eqb a Preparing || status_eqb a Submitted.
(* expiry is raised for waiting tasks only; submission failure is reported by the
   submit command or a poll (not by the job) while the job has not started; a
   polled/internal started or failed does not contradict a finished state *)
Definition env_msg (m : msg) (r : bool) (a : status) : bool :=
  match m with
  | MExpired => status_eqb a Waiting
  | MSubFail => negb r && pre_start a
  | MStarted => r || (rk a <=? rk Running)
  | MFailed => r || negb (status_eqb a Succeeded)
  | _ => true
  end.
Definition env_ok (t : task) (o : op) : bool :=
  match o with
  | OpPrep => true
  | OpSubRes ok => ok || pre_start (st t)
  | OpMsg m f _ => env_msg m (flag_received f) (st t)
  end.

Lemma edge_lifecycle m r a b :
  edge_ok m r a b = true -> env_msg m r a = true ->
  a = b \/ lifecycle_edge a b = true \/ b = Waiting.
Proof.
  destruct m; cbn [edge_ok env_msg]; intros E X; try discriminate E;
    destruct r, a, b; cbn in E, X; try discriminate E; try discriminate X; cbn; auto.
Qed.

Lemma step_lifecycle t o : wf t -> env_ok t o = true ->
  let t' := fst (step t o) in
  st t' = st t \/ lifecycle_edge (st t) (st t') = true \/ st t' = Waiting.
Proof.
  intros W X. cbn zeta. destruct (step_edges t o W) as [E|E]; [left; exact E|].
  destruct o as [|ok|m f rel]; cbn [op_edge env_ok] in *.
  - apply andb_true_iff in E. destruct E as [E1 E2].
    apply status_eqb_eq in E1. apply status_eqb_eq in E2. rewrite E1, E2. right. left. reflexivity.
  - destruct ok.
    + destruct (edge_lifecycle MSubmitted false _ _ E eq_refl) as [H|[H|H]]; auto.
    + cbn [orb] in X. destruct (edge_lifecycle MSubFail false _ _ E X) as [H|[H|H]]; auto.
  - destruct (edge_lifecycle m _ _ _ E X) as [H|[H|H]]; auto.
Qed.

(* without the environment hypothesis the lifecycle statement is false:
   a poll result 'started' processed after the received 'succeeded' *)
Definition late_poll_pre : list op :=
  [OpPrep; OpMsg MStarted Received 0%Z; OpMsg MSucceeded Received 0%Z].
Definition late_poll_op : op := OpMsg MStarted Polled 0%Z.
Lemma late_poll_regresses :
  let t := final (fresh 0 0 0) late_poll_pre in
  st t = Succeeded /\ st (fst (step t late_poll_op)) = Running.
Proof. vm_compute. auto. Qed.

(* ====================================================================== *)
(* Part 6: stale / backward / retry-window (C10)                           *)
(* ====================================================================== *)
Lemma pm_stale t m n : n <> Z.of_nat (sn t) -> process_message t m Received n = (t, []).
Proof.
  intros N. apply pm_ignored. unfold check. cbn [flag_received andb].
  apply Z.eqb_neq in N. rewrite N. reflexivity.
Qed.

Lemma pm_retry_window t m f n :
  st t = Waiting -> retry_lined_up t = true -> m <> MExpired ->
  process_message t m f n = (t, []).
Proof.
  intros S L N. apply pm_ignored. unfold check. rewrite S, L.
  destruct (flag_received f && negb (n =? Z.of_nat (sn t))%Z); [reflexivity|].
  destruct m; cbn; try reflexivity. congruence.
Qed.

(* a received message that would move the status backwards *)
Definition backward (m : msg) (s : status) : bool :=
  match m with
  | MStarted => rk Running <? rk s
  | MFailed => rk Failed <? rk s
  | MSubFail => rk SubmitFailed <? rk s
  | MSubmitted => rk Submitted <=? rk s
  | _ => false
  end.

Lemma add1_In_idem o l : In o l -> add1 o l = l.
Proof. intros H. apply add1_idem. apply (mem_In out_eqb out_eqb_eq). exact H. Qed.

Lemma pm_backward_polls t m : wf t -> backward m (st t) = true ->
  process_message t m Received (Z.of_nat (sn t)) = (t, [EPoll]).
Proof.
  intros W B.
  assert (C : check t m Received (Z.of_nat (sn t)) = true).
  { unfold check. cbn [flag_received andb]. rewrite Z.eqb_refl. cbn [negb].
    destruct (st t); destruct m; cbn in B; try discriminate B; reflexivity. }
  assert (Hs : rk Submitted <= rk (st t))
    by (destruct m; try discriminate B; destruct (st t); cbn in B |- *; try discriminate B; lia).
  pose proof (wf_hs t W Hs) as I1.
  rewrite pm_closed_eq. unfold pm_closed. rewrite C. cbn [negb flag_received].
  assert (H1 : hs t = true) by (apply hs_In; exact I1).
  destruct m; try discriminate B; unfold backward in B.
  - (* submitted *)
    unfold ctl_next, ctl_of, adds, eff_next. cbn [c_st c_exec c_sub andb]. rewrite B.
    cbn [c_st c_exec c_sub addl fold_left]. rewrite (add1_In_idem _ _ I1), upd_eta. reflexivity.
  - (* started *)
    assert (Hr : rk Running <= rk (st t)) by (apply Nat.ltb_lt in B; lia).
    pose proof (wf_ht t W Hr) as I2.
    unfold ctl_next, ctl_of, adds, eff_next. cbn [c_st c_exec c_sub andb]. rewrite H1. cbn iota. rewrite B.
    cbn [c_st c_exec c_sub addl fold_left app].
    rewrite (add1_In_idem OStarted _ I2), (add1_In_idem _ _ I1), upd_eta. reflexivity.
  - (* failed *)
    assert (Hr : rk Running <= rk (st t)) by (apply Nat.ltb_lt in B; cbn in *; lia).
    pose proof (wf_ht t W Hr) as I2.
    assert (H2 : ht t = true) by (apply ht_In; exact I2).
    unfold ctl_next, ctl_of, adds, eff_next, fail_final, imp_eff, mid_st, mid_sub.
    cbn [c_st c_exec c_sub andb]. rewrite H1, H2. cbn iota. rewrite B.
    cbn [c_st c_exec c_sub addl fold_left app negb andb].
    rewrite (add1_In_idem _ _ I1), (add1_In_idem OStarted _ I2), upd_eta. reflexivity.
  - (* submission failed *)
    unfold ctl_next, ctl_of, adds, eff_next, subfail_final.
    cbn [c_st c_exec c_sub andb]. rewrite B.
    cbn [c_st c_exec c_sub addl fold_left app negb andb]. rewrite upd_eta. reflexivity.
Qed.

(* a poll is requested only for a received, current, backward message *)
Lemma pm_poll_only_backward t m f n : wf t ->
  In EPoll (snd (process_message t m f n)) ->
  flag_received f = true /\ n = Z.of_nat (sn t) /\ backward m (st t) = true.
Proof.
  intros W. destruct (check t m f n) eqn:C; [|rewrite pm_ignored by exact C; intros []].
  rewrite (pm_eff t m f n C).
  assert (N : flag_received f = true -> n = Z.of_nat (sn t)).
  { intros F. unfold check in C. rewrite F in C. cbn [andb] in C.
    destruct (n =? Z.of_nat (sn t))%Z eqn:E; [apply Z.eqb_eq; exact E|discriminate C]. }
  pose proof (wf_hs t W) as W1. pose proof (wf_ht t W) as W2.
  rewrite <- hs_In in W1. rewrite <- ht_In in W2.
  unfold eff_next, imp_eff, mid_st, backward.
  destruct (flag_received f) eqn:F; cbn [andb].
  - destruct m; destruct (hs t) eqn:Hs; destruct (ht t) eqn:Ht;
      repeat match goal with
             | |- context [match next_of ?x with _ => _ end] => destruct (next_of x)
             | |- context [if ?b then _ else _] => destruct b eqn:?
             end; cbn; intros H; try tauto;
      repeat match goal with H : _ \/ _ |- _ => destruct H end; try discriminate; try tauto.
    all: try (split; [reflexivity|split; [apply N; reflexivity|]]); auto.
    all: try (exfalso;
              match goal with E : (_ <? rk (psub_st ?s)) = true |- _ =>
                apply Nat.ltb_lt in E; destruct (psub_st_cases s) as [[_ Q]|[_ Q]]; rewrite Q in E;
                [cbn in E; lia|]; cbn in E, W1, W2 end;
              try (specialize (W1 ltac:(lia)); discriminate W1)).
    all: try (exfalso; match goal with E : (_ <? rk Running) = true |- _ => cbn in E; discriminate E end).
  - destruct m; destruct (hs t); destruct (ht t);
      repeat match goal with
             | |- context [match next_of ?x with _ => _ end] => destruct (next_of x)
             | |- context [if ?b then _ else _] => destruct b
             end; cbn; intros H;
      repeat match goal with H : _ \/ _ |- _ => destruct H end; try discriminate; tauto.
Qed.
