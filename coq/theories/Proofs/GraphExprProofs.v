(* Proofs/GraphExprProofs.v — the token evaluator [ev]/[eval_toks] of
   Model/GraphBase.v reads the printing of a well-shaped tree back with the
   tree's own value (print/evaluate round trip). *)
From Coq Require Import List Bool Arith String Lia.
From Cylc Require Import Base.Util Gen.FamTables Model.GraphBase Model.GraphExpr.
Import ListNotations.

(* one-step unfolding *)
Lemma ev_S f v lvl l :
  ev (S f) v lvl l =
  match lvl with
  | 0 => match ev f v 1 l with
         | Some (b, TOr :: r) =>
             match ev f v 0 r with Some (b', r') => Some (b || b', r') | None => None end
         | x => x
         end
  | 1 => match ev f v 2 l with
         | Some (b, TAnd :: r) =>
             match ev f v 1 r with Some (b', r') => Some (b && b', r') | None => None end
         | x => x
         end
  | _ => match l with
         | TN n :: r => Some (v (node_atom n), r)
         | TLp :: r => match ev f v 0 r with
                       | Some (b, TRp :: r') => Some (b, r')
                       | _ => None
                       end
         | _ => None
         end
  end.
Proof. reflexivity. Qed.

(* ---------- fuel monotonicity ---------- *)
Lemma ev_mono_S f : forall v lvl l r, ev f v lvl l = Some r -> ev (S f) v lvl l = Some r.
Proof.
  induction f as [|f IH]; intros v lvl l r H; [discriminate|].
  rewrite ev_S in H. rewrite (ev_S (S f)).
  destruct lvl as [|[|lvl]].
  - destruct (ev f v 1 l) as [[b [|t r1]]|] eqn:E1; try discriminate.
    + apply IH in E1. rewrite E1. exact H.
    + apply IH in E1. rewrite E1.
      destruct t; try exact H.
      destruct (ev f v 0 r1) as [[b' r']|] eqn:E0; try discriminate.
      apply IH in E0. rewrite E0. exact H.
  - destruct (ev f v 2 l) as [[b [|t r1]]|] eqn:E1; try discriminate.
    + apply IH in E1. rewrite E1. exact H.
    + apply IH in E1. rewrite E1.
      destruct t; try exact H.
      destruct (ev f v 1 r1) as [[b' r']|] eqn:E0; try discriminate.
      apply IH in E0. rewrite E0. exact H.
  - destruct l as [|t r1]; try discriminate.
    destruct t; try discriminate; [exact H|].
    destruct (ev f v 0 r1) as [[b' [|t' r']]|] eqn:E0; try discriminate.
    apply IH in E0. rewrite E0. exact H.
Qed.

Lemma ev_mono f g v lvl l r : f <= g -> ev f v lvl l = Some r -> ev g v lvl l = Some r.
Proof.
  induction 1 as [|g Hle IH]; [auto|]. intros H. apply ev_mono_S. auto.
Qed.

(* ---------- what may follow an expression at each level ---------- *)
Definition ok_rest (lvl : nat) (rest : list tok) : Prop :=
  match lvl, rest with
  | 0, (TAnd :: _ | TOr :: _) => False
  | 1, TAnd :: _ => False
  | _, _ => True
  end.

Lemma ok_rest_0_1 rest : ok_rest 0 rest -> ok_rest 1 rest.
Proof. destruct rest as [|[] r]; cbn; tauto. Qed.

(* lifting a result one level up when the next token does not continue it *)
Lemma ev_lift1 f v l b rest :
  ev f v 2 l = Some (b, rest) -> ok_rest 1 rest -> ev (S f) v 1 l = Some (b, rest).
Proof.
  intros H Hr. rewrite ev_S. rewrite H. destruct rest as [|[] r]; cbn in Hr; try reflexivity. tauto.
Qed.
Lemma ev_lift0 f v l b rest :
  ev f v 1 l = Some (b, rest) -> ok_rest 0 rest -> ev (S f) v 0 l = Some (b, rest).
Proof.
  intros H Hr. rewrite ev_S. rewrite H. destruct rest as [|[] r]; cbn in Hr; try reflexivity. tauto.
Qed.

(* ---------- round trip ---------- *)
Lemma ev_print v : forall e lvl rest,
  wf_lvl lvl e = true -> ok_rest lvl rest ->
  ev (3 * List.length (print_e e)) v lvl (print_e e ++ rest)
  = Some (eval_e (fun n => v (node_atom n)) e, rest).
Proof.
  induction e as [n|e IH|a IHa b IHb|a IHa b IHb]; intros lvl rest Hwf Hr.
  - (* node *)
    cbn [print_e List.length app eval_e].
    assert (F : ev 1 v 2 (TN n :: rest) = Some (v (node_atom n), rest)) by reflexivity.
    destruct lvl as [|[|lvl]].
    + apply (ev_mono 3 3); [lia|]. apply ev_lift0; [|exact Hr]. apply ev_lift1; [exact F|].
      now apply ok_rest_0_1.
    + apply (ev_mono 2 3); [lia|]. apply ev_lift1; [exact F|exact Hr].
    + apply (ev_mono 1 3); [lia|]. exact F.
  - (* parentheses *)
    cbn [print_e eval_e wf_lvl] in *.
    set (k := List.length (print_e e)).
    assert (Hlen : List.length (TLp :: print_e e ++ [TRp]) = k + 2)
      by (cbn [List.length]; rewrite app_length; cbn; lia).
    rewrite Hlen.
    assert (F : ev (S (3 * k)) v 2 ((TLp :: print_e e ++ [TRp]) ++ rest)
                = Some (eval_e (fun n => v (node_atom n)) e, rest)).
    { rewrite ev_S. cbn [app]. rewrite <- app_assoc. cbn [app]. unfold k.
      rewrite (IH 0 (TRp :: rest) Hwf I). reflexivity. }
    destruct lvl as [|[|lvl]].
    + apply (ev_mono (S (S (S (3 * k))))); [lia|]. apply ev_lift0; [|exact Hr].
      apply ev_lift1; [exact F|now apply ok_rest_0_1].
    + apply (ev_mono (S (S (3 * k)))); [lia|]. apply ev_lift1; [exact F|exact Hr].
    + apply (ev_mono (S (3 * k))); [lia|]. exact F.
  - (* and *)
    cbn [print_e eval_e wf_lvl] in *.
    apply andb_true_iff in Hwf. destruct Hwf as [Hwf Hb].
    apply andb_true_iff in Hwf. destruct Hwf as [Hl Ha].
    apply Nat.leb_le in Hl.
    set (ka := List.length (print_e a)). set (kb := List.length (print_e b)).
    assert (Hlen : List.length (print_e a ++ TAnd :: print_e b) = ka + kb + 1)
      by (rewrite app_length; cbn [List.length]; lia).
    rewrite Hlen.
    assert (Hrb : ok_rest 1 rest) by (destruct lvl as [|[|?]]; [now apply ok_rest_0_1|exact Hr|lia]).
    assert (F : ev (S (3 * ka + 3 * kb)) v 1 ((print_e a ++ TAnd :: print_e b) ++ rest)
                = Some (eval_e (fun n => v (node_atom n)) a && eval_e (fun n => v (node_atom n)) b, rest)).
    { rewrite ev_S. rewrite <- app_assoc. cbn [app].
      rewrite (ev_mono (3 * ka) (3 * ka + 3 * kb) v 2 _ _ ltac:(lia) (IHa 2 (TAnd :: print_e b ++ rest) Ha I)).
      rewrite (ev_mono (3 * kb) (3 * ka + 3 * kb) v 1 _ _ ltac:(lia) (IHb 1 rest Hb Hrb)).
      reflexivity. }
    destruct lvl as [|[|lvl]]; [| |lia].
    + apply (ev_mono (S (S (3 * ka + 3 * kb)))); [lia|]. apply ev_lift0; [exact F|exact Hr].
    + apply (ev_mono (S (3 * ka + 3 * kb))); [lia|]. exact F.
  - (* or *)
    cbn [print_e eval_e wf_lvl] in *.
    apply andb_true_iff in Hwf. destruct Hwf as [Hwf Hb].
    apply andb_true_iff in Hwf. destruct Hwf as [Hl Ha].
    apply Nat.eqb_eq in Hl. subst lvl.
    set (ka := List.length (print_e a)). set (kb := List.length (print_e b)).
    assert (Hlen : List.length (print_e a ++ TOr :: print_e b) = ka + kb + 1)
      by (rewrite app_length; cbn [List.length]; lia).
    rewrite Hlen.
    apply (ev_mono (S (3 * ka + 3 * kb))); [lia|].
    rewrite ev_S. rewrite <- app_assoc. cbn [app].
    rewrite (ev_mono (3 * ka) (3 * ka + 3 * kb) v 1 _ _ ltac:(lia) (IHa 1 (TOr :: print_e b ++ rest) Ha I)).
    rewrite (ev_mono (3 * kb) (3 * ka + 3 * kb) v 0 _ _ ltac:(lia) (IHb 0 rest Hb Hr)).
    reflexivity.
Qed.

Theorem eval_toks_print v e :
  wf_lvl 0 e = true ->
  eval_toks v (print_e e) = Some (eval_e (fun n => v (node_atom n)) e).
Proof.
  intros Hwf. unfold eval_toks.
  pose proof (ev_print v e 0 [] Hwf I) as H. rewrite app_nil_r in H.
  assert (Hle : 3 * List.length (print_e e) <= 3 * List.length (print_e e) + 3) by lia.
  rewrite (ev_mono _ _ v 0 _ _ Hle H). reflexivity.
Qed.

(* a tree that is well shaped at a level is well shaped at every lower level *)
Lemma wf_lvl_le e : forall l1 l2, l2 <= l1 -> wf_lvl l1 e = true -> wf_lvl l2 e = true.
Proof.
  destruct e; cbn; intros l1 l2 Hle H; auto.
  - apply andb_true_iff in H. destruct H as [H Hb]. apply andb_true_iff in H. destruct H as [Hl Ha].
    apply Nat.leb_le in Hl. rewrite Ha, Hb. replace (l2 <=? 1) with true; [reflexivity|].
    symmetry. apply Nat.leb_le. lia.
  - apply andb_true_iff in H. destruct H as [H Hb]. apply andb_true_iff in H. destruct H as [Hl Ha].
    apply Nat.eqb_eq in Hl. subst. replace l2 with 0 by lia. cbn. now rewrite Ha, Hb.
Qed.
