(* Proofs/WfNameProofs.v — lemmas about Model/WfName.v (C39) *)
From Coq Require Import List ZArith Bool Lia.
From Cylc Require Import Base.Util Gen.WfNameRules Model.WfName.
Import ListNotations.
Open Scope Z_scope.

(* ---------- specification vocabulary ---------- *)
(* a real directory entry name: not empty, not "." or "..", no slash *)
Definition real_comp (c : codes) : Prop :=
  c <> [] /\ c <> dot /\ c <> dotdot /\ ~ In 47 c.

(* ---------- booleans ---------- *)
Lemma codes_eqb_eq a b : codes_eqb a b = true <-> a = b.
Proof. apply list_eqb_spec. intros x y. apply Z.eqb_eq. Qed.

Lemma codes_eqb_neq a b : codes_eqb a b = false <-> a <> b.
Proof.
  rewrite <- codes_eqb_eq. destruct (codes_eqb a b); split; congruence.
Qed.

Lemma codes_eqb_refl a : codes_eqb a a = true.
Proof. now apply codes_eqb_eq. Qed.

Lemma mem_codes_In x l : mem codes_eqb x l = true <-> In x l.
Proof. apply mem_In. intros a b. apply codes_eqb_eq. Qed.

Lemma last_is_snoc c s : last_is c s = true -> exists s', s = s' ++ [c].
Proof.
  unfold last_is. destruct (rev s) as [|x r] eqn:E; [discriminate|].
  intros H. apply Z.eqb_eq in H. subst x. exists (rev r).
  rewrite <- (rev_involutive s), E. reflexivity.
Qed.

Lemma last_is_app_single c s : last_is c (s ++ [c]) = true.
Proof. unfold last_is. rewrite rev_app_distr. cbn. apply Z.eqb_refl. Qed.

Lemma filter_all {A} (f : A -> bool) l :
  (forall x, In x l -> f x = true) -> filter f l = l.
Proof.
  induction l as [|x l IH]; cbn; intros H; [reflexivity|].
  rewrite (H x (or_introl eq_refl)), IH; auto.
Qed.

(* ---------- split / join ---------- *)
Lemma split_on_nonnil sep s : split_on sep s <> [].
Proof.
  destruct s as [|c r]; cbn; [discriminate|].
  destruct (c =? sep); [discriminate|]. destruct (split_on sep r); discriminate.
Qed.

Lemma split_on_app sep a b :
  split_on sep (a ++ sep :: b) = split_on sep a ++ split_on sep b.
Proof.
  induction a as [|c a IH]; cbn.
  - rewrite Z.eqb_refl. reflexivity.
  - destruct (c =? sep); [now rewrite IH|].
    rewrite IH. pose proof (split_on_nonnil sep a) as Hn.
    destruct (split_on sep a); [congruence|reflexivity].
Qed.

Lemma split_on_no_sep sep s c : In c (split_on sep s) -> ~ In sep c.
Proof.
  revert c; induction s as [|x s IH]; cbn; intros c.
  - intros [<-|[]] [].
  - destruct (x =? sep) eqn:E.
    + intros [<-|H]; [intros []|auto].
    + destruct (split_on sep s) as [|h t] eqn:Es.
      * intros [<-|[]] [->|[]]. rewrite Z.eqb_refl in E. discriminate.
      * intros [<-|H].
        -- intros [->|Hin]; [rewrite Z.eqb_refl in E; discriminate|].
           apply (IH h); [now left|exact Hin].
        -- apply IH. now right.
Qed.

Lemma split_on_nosep_id sep s : ~ In sep s -> split_on sep s = [s].
Proof.
  induction s as [|x s IH]; cbn; [reflexivity|]. intros H.
  destruct (x =? sep) eqn:E; [apply Z.eqb_eq in E; subst; exfalso; apply H; now left|].
  rewrite IH; [reflexivity|]. intros Hin; apply H; now right.
Qed.

Lemma split_join sep comps :
  comps <> [] -> Forall (fun c => ~ In sep c) comps ->
  split_on sep (join_with sep comps) = comps.
Proof.
  induction comps as [|c r IH]; [congruence|]. intros _ HF.
  inversion HF as [|? ? Hc Hr]; subst. cbn [join_with].
  destruct r as [|c' r'].
  - now apply split_on_nosep_id.
  - rewrite split_on_app, split_on_nosep_id by exact Hc.
    rewrite IH; [reflexivity|discriminate|exact Hr].
Qed.

Lemma join_app sep a b :
  b <> [] ->
  join_with sep (a ++ b) =
  join_with sep a ++ (match a with [] => [] | _ => [sep] end) ++ join_with sep b.
Proof.
  intros Hb. induction a as [|x a IH]; [reflexivity|].
  cbn [app join_with]. destruct a as [|y a'].
  - cbn. destruct b; [congruence|reflexivity].
  - cbn [app] in *. rewrite IH. cbn [app]. now rewrite <- app_assoc.
Qed.

Lemma join_nonempty sep comps :
  comps <> [] -> Forall (fun c => c <> []) comps -> join_with sep comps <> [].
Proof.
  destruct comps as [|c r]; [congruence|]. intros _ HF.
  inversion HF as [|? ? Hc _]; subst. cbn [join_with].
  destruct r; [exact Hc|]. destruct c; [congruence|discriminate].
Qed.

Lemma join_head sep c r x s :
  c = x :: s -> exists t, join_with sep (c :: r) = x :: t.
Proof. intros ->. cbn [join_with]. destruct r; cbn [app]; eauto. Qed.

(* ---------- the normpath loop ---------- *)
Lemma np_step_elems init T comp c :
  In c (np_step init T comp) ->
  In c T \/ (c = comp /\ comp <> [] /\ comp <> dot).
Proof.
  unfold np_step.
  destruct (codes_eqb comp []) eqn:E1; [cbn; auto|].
  destruct (codes_eqb comp dot) eqn:E2; [cbn; auto|]. cbn [orb].
  apply codes_eqb_neq in E1. apply codes_eqb_neq in E2.
  destruct (codes_eqb comp dotdot) eqn:E3; cbn [negb].
  - destruct T as [|top rest].
    + destruct init; [intros []|]. intros [<-|[]]. right; auto.
    + destruct (codes_eqb top dotdot).
      * intros [<-|H]; [right; auto|left; exact H].
      * intros H. left. now right.
  - intros [<-|H]; [right; auto|left; exact H].
Qed.

Lemma np_fold_elems init comps : forall T c,
  In c (fold_left (np_step init) comps T) ->
  In c T \/ (In c comps /\ c <> [] /\ c <> dot).
Proof.
  induction comps as [|x comps IH]; cbn; intros T c H; [auto|].
  destruct (IH _ _ H) as [H1|[H1 H2]].
  - destruct (np_step_elems _ _ _ _ H1) as [H3|[-> H3]]; [auto|]. right. split; auto.
  - right. split; auto.
Qed.

(* absolute mode: ".." never stays on the stack *)
Lemma np_step_true_nodd T comp :
  Forall (fun c => c <> dotdot) T -> Forall (fun c => c <> dotdot) (np_step true T comp).
Proof.
  intros HT. unfold np_step.
  destruct (codes_eqb comp [] || codes_eqb comp dot); [exact HT|].
  destruct (codes_eqb comp dotdot) eqn:E3; cbn [negb].
  - destruct T as [|top rest]; [constructor|].
    inversion HT as [|? ? Htop Hrest]; subst.
    apply codes_eqb_neq in Htop. rewrite Htop. exact Hrest.
  - constructor; [now apply codes_eqb_neq|exact HT].
Qed.

(* relative mode: a ".." at the bottom of the stack stays there *)
Lemma np_step_persist T comp T0 :
  T = T0 ++ [dotdot] -> exists T1, np_step false T comp = T1 ++ [dotdot].
Proof.
  intros ->. unfold np_step.
  destruct (codes_eqb comp [] || codes_eqb comp dot); [eauto|].
  destruct (codes_eqb comp dotdot) eqn:E3; cbn [negb].
  - destruct T0 as [|top rest]; cbn [app].
    + cbn. exists [comp]. reflexivity.
    + destruct (codes_eqb top dotdot).
      * exists (comp :: top :: rest). reflexivity.
      * eauto.
  - exists (comp :: T0). reflexivity.
Qed.

Lemma np_fold_persist comps : forall T T0,
  T = T0 ++ [dotdot] -> exists T1, fold_left (np_step false) comps T = T1 ++ [dotdot].
Proof.
  induction comps as [|x comps IH]; cbn; intros T T0 H; [eauto|].
  destruct (np_step_persist T x T0 H) as [T1 H1]. eapply IH. exact H1.
Qed.

(* relative mode: whenever ".." is on the stack, it is at the bottom *)
Definition dd_bottom (T : list codes) : Prop :=
  In dotdot T -> exists T0, T = T0 ++ [dotdot].

Lemma np_step_dd_bottom T comp : dd_bottom T -> dd_bottom (np_step false T comp).
Proof.
  intros K. unfold np_step.
  destruct (codes_eqb comp [] || codes_eqb comp dot); [exact K|].
  destruct (codes_eqb comp dotdot) eqn:E3; cbn [negb].
  - apply codes_eqb_eq in E3. subst comp.
    destruct T as [|top rest].
    + intros _. exists []. reflexivity.
    + destruct (codes_eqb top dotdot) eqn:Et.
      * apply codes_eqb_eq in Et. subst top. intros _.
        destruct K as [T0 HT0]; [now left|]. exists (dotdot :: T0). now rewrite HT0.
      * apply codes_eqb_neq in Et. intros Hin.
        destruct K as [T0 HT0]; [now right|].
        destruct T0 as [|t0 T0']; cbn in HT0; inversion HT0; subst; [congruence|eauto].
  - apply codes_eqb_neq in E3. intros [E|Hin]; [congruence|].
    destruct (K Hin) as [T0 ->]. exists (comp :: T0). reflexivity.
Qed.

Lemma np_fold_dd_bottom comps : forall T,
  dd_bottom T -> dd_bottom (fold_left (np_step false) comps T).
Proof.
  induction comps as [|x comps IH]; cbn; intros T K; [exact K|].
  apply IH. now apply np_step_dd_bottom.
Qed.

(* the simulation: if the relative walk ends without "..", then the same walk
   on top of any stack S in absolute mode gives the same result on top of S *)
Lemma np_sim comps : forall T S,
  Forall (fun c => c <> dotdot) T ->
  Forall (fun c => c <> dotdot) (fold_left (np_step false) comps T) ->
  fold_left (np_step true) comps (T ++ S) = fold_left (np_step false) comps T ++ S.
Proof.
  induction comps as [|x comps IH]; cbn [fold_left]; intros T S HT HF; [reflexivity|].
  assert (Hstep : np_step true (T ++ S) x = np_step false T x ++ S
                  /\ Forall (fun c => c <> dotdot) (np_step false T x)).
  { destruct (codes_eqb x [] || codes_eqb x dot) eqn:E1.
    { unfold np_step. rewrite E1. auto. }
    destruct (codes_eqb x dotdot) eqn:E3.
    2:{ unfold np_step. rewrite E1, E3. cbn [negb]. split; [reflexivity|].
        constructor; [now apply codes_eqb_neq|exact HT]. }
    destruct T as [|top rest].
    - exfalso.
      assert (HT1 : np_step false [] x = [] ++ [dotdot]).
      { unfold np_step. rewrite E1, E3. cbn. apply codes_eqb_eq in E3. now subst x. }
      destruct (np_fold_persist comps _ _ HT1) as [T1 H1].
      rewrite H1 in HF. rewrite Forall_forall in HF.
      apply (HF dotdot); [apply in_or_app; right; now left|reflexivity].
    - inversion HT as [|? ? Htop Hrest]; subst.
      apply codes_eqb_neq in Htop. unfold np_step. rewrite E1, E3.
      cbn [negb app]. rewrite Htop. auto. }
  destruct Hstep as [E HF1]. rewrite E. apply IH; assumption.
Qed.

(* ---------- leading slashes ---------- *)
Lemma isabs_cons_eq c r : isabs (c :: r) = (47 =? c).
Proof. unfold isabs. cbn [starts_with]. apply andb_true_r. Qed.

Lemma isabs_cons p : isabs p = true -> exists r, p = 47 :: r.
Proof.
  destruct p as [|c r]; [discriminate|]. rewrite isabs_cons_eq.
  intros H. apply Z.eqb_eq in H. subst. eauto.
Qed.

Lemma slashes_cons_not c r : (47 =? c) = false -> initial_slashes (c :: r) = 0%nat.
Proof. intros H. unfold initial_slashes. cbn [starts_with]. rewrite H. reflexivity. Qed.

Lemma not_abs_slashes p : isabs p = false -> initial_slashes p = 0%nat.
Proof.
  destruct p as [|c r]; [reflexivity|]. rewrite isabs_cons_eq. apply slashes_cons_not.
Qed.

Lemma pjoin_cases run name :
  isabs run = true -> isabs name = false ->
  exists body, (run = body ++ [47] \/ run = body) /\ pjoin run name = body ++ 47 :: name
               /\ np_stack true (split_on 47 run) = np_stack true (split_on 47 body).
Proof.
  intros Hr Hn. unfold pjoin. rewrite Hn.
  destruct (isabs_cons _ Hr) as [r ->]. cbn [nonempty negb orb].
  destruct (last_is 47 (47 :: r)) eqn:E.
  - destruct (last_is_snoc _ _ E) as [body Hb]. exists body. rewrite Hb.
    split; [now left|]. split; [now rewrite <- app_assoc|].
    unfold np_stack. rewrite split_on_app, fold_left_app. reflexivity.
  - exists (47 :: r). split; [now right|]. split; reflexivity.
Qed.

(* initial_slashes only looks at the first three characters *)
Lemma slashes3 a b c r r' :
  initial_slashes (a :: b :: c :: r) = initial_slashes (a :: b :: c :: r').
Proof. unfold initial_slashes. cbn [starts_with]. reflexivity. Qed.

Lemma pjoin_slashes run name :
  isabs run = true -> isabs name = false ->
  initial_slashes (pjoin run name) = initial_slashes run.
Proof.
  intros Hr Hn. unfold pjoin. rewrite Hn.
  destruct (isabs_cons _ Hr) as [r ->]. cbn [nonempty negb orb].
  assert (Hn' : match name with c :: _ => (47 =? c) = false | [] => True end).
  { destruct name as [|c n]; [exact I|]. now rewrite isabs_cons_eq in Hn. }
  destruct r as [|b [|c r]].
  - unfold last_is. cbn [rev app]. rewrite Z.eqb_refl. cbn [app].
    destruct name as [|c n]; [reflexivity|].
    unfold initial_slashes. cbn [starts_with]. rewrite Hn'. reflexivity.
  - unfold last_is. cbn [rev app].
    destruct (b =? 47) eqn:Eb; cbn [app].
    + destruct name as [|d n]; [reflexivity|].
      unfold initial_slashes. cbn [starts_with]. rewrite Hn'.
      rewrite !andb_false_r. reflexivity.
    + unfold initial_slashes. cbn [starts_with]. rewrite (Z.eqb_sym 47 b), Eb.
      rewrite !andb_false_r. reflexivity.
  - destruct (last_is 47 (47 :: b :: c :: r)); cbn [app]; apply slashes3.
Qed.

(* ---------- unfolding an accepted name ---------- *)
Section WithClasses.
  Variable is_word is_digit : Z -> bool.

  Lemma first_fail_none rs : forall i s,
    first_fail is_word is_digit rs i s = None ->
    forall r, In r rs -> match_rule is_word is_digit r s = true.
  Proof.
    induction rs as [|r0 rs IH]; cbn; intros i s H r; [tauto|].
    destruct (match_rule is_word is_digit r0 s) eqn:E; [|discriminate].
    intros [<-|Hin]; [exact E|eauto].
  Qed.

  Lemma validate_ok chk name :
    validate is_word is_digit chk name = Ok ->
    first_fail is_word is_digit rules 0 name = None /\
    isabs name = false /\
    starts_with dot (normpath name) = false /\
    (chk = true -> check_reserved is_digit (parts (normpath name)) = Ok).
  Proof.
    unfold validate.
    destruct (first_fail is_word is_digit rules 0 name); [discriminate|].
    destruct (isabs name); [discriminate|].
    destruct (starts_with dot (normpath name)); [discriminate|].
    destruct chk; intros H; repeat split; auto. discriminate.
  Qed.

  Lemma check_reserved_ok ps :
    check_reserved is_digit ps = Ok ->
    Forall (fun c => mem codes_eqb c reserved_names = false
                     /\ is_run_number is_digit c = false) ps.
  Proof.
    induction ps as [|d r IH]; cbn [check_reserved]; [constructor|].
    destruct (mem codes_eqb d reserved_names) eqn:E1; [discriminate|].
    destruct (is_run_number is_digit d) eqn:E2; [discriminate|].
    intros H. constructor; auto.
  Qed.

  (* what an accepted name normalises to *)
  Lemma accepted_norm chk name :
    validate is_word is_digit chk name = Ok ->
    let rest := path_comps name in
    isabs name = false /\ name <> [] /\
    rest = rev (np_stack false (split_on 47 name)) /\
    rest <> [] /\ Forall real_comp rest /\
    normpath name = join_with 47 rest /\
    (chk = true -> Forall (fun c => mem codes_eqb c reserved_names = false
                                    /\ is_run_number is_digit c = false) rest).
  Proof.
    intros Hv. destruct (validate_ok _ _ Hv) as (_ & Habs & Hdot & Hres).
    assert (Hne : name <> []) by (intros ->; discriminate Hdot).
    unfold path_comps. rewrite (not_abs_slashes _ Habs). cbn [Nat.eqb negb].
    set (T := np_stack false (split_on 47 name)).
    cbv zeta.
    (* elements of the stack *)
    assert (Hel : forall c, In c T -> c <> [] /\ c <> dot /\ ~ In 47 c).
    { intros c Hc. destruct (np_fold_elems _ _ _ _ Hc) as [[]|(H1 & H2 & H3)].
      repeat split; auto. eapply split_on_no_sep; eauto. }
    assert (Hnp : normpath name =
                  match join_with 47 (rev T) with [] => dot | r => r end).
    { unfold normpath, path_comps. rewrite (not_abs_slashes _ Habs).
      destruct name as [|z name']; [congruence|]. cbn [repeat app Nat.eqb negb].
      unfold T. destruct (join_with 47 (rev (np_stack false (split_on 47 (z :: name')))));
        reflexivity. }
    assert (Hne_el : Forall (fun c : codes => c <> []) (rev T)).
    { apply Forall_forall. intros c Hc. apply in_rev in Hc. now apply Hel. }
    assert (HTne : rev T <> []).
    { intros E. rewrite Hnp, E in Hdot. discriminate Hdot. }
    pose proof (join_nonempty 47 _ HTne Hne_el) as Hjne.
    assert (Hnp' : normpath name = join_with 47 (rev T)).
    { rewrite Hnp. destruct (join_with 47 (rev T)); [congruence|reflexivity]. }
    assert (Hnodd : Forall (fun c => c <> dotdot) T).
    { apply Forall_forall. intros c Hc ->.
      destruct (np_fold_dd_bottom (split_on 47 name) [] ) as [T0 HT0].
      - intros [].
      - exact Hc.
      - fold (np_stack false (split_on 47 name)) in HT0. fold T in HT0.
        rewrite Hnp', HT0, rev_app_distr in Hdot. cbn [rev app] in Hdot.
        destruct (join_head 47 dotdot (rev T0) 46 [46] eq_refl) as [t Ht].
        assert (E : starts_with dot (46 :: t) = false) by (rewrite <- Ht; exact Hdot).
        unfold dot in E. cbn [starts_with] in E. rewrite Z.eqb_refl in E. discriminate E. }
    assert (Hreal : Forall real_comp (rev T)).
    { apply Forall_forall. intros c Hc. apply in_rev in Hc.
      destruct (Hel c Hc) as (H1 & H2 & H3). rewrite Forall_forall in Hnodd.
      repeat split; auto. }
    repeat split; auto.
    intros Hchk. specialize (Hres Hchk). rewrite Hnp' in Hres.
    unfold parts in Hres. rewrite split_join in Hres.
    - rewrite filter_all in Hres; [now apply check_reserved_ok|].
      intros c Hc. apply in_rev in Hc.
      destruct (Hel c Hc) as (H1 & H2 & _).
      apply codes_eqb_neq in H1. apply codes_eqb_neq in H2. now rewrite H1, H2.
    - exact HTne.
    - apply Forall_forall. intros c Hc. apply in_rev in Hc. now apply Hel.
  Qed.
End WithClasses.

(* ---------- the containment theorem ---------- *)
Lemma abs_slashes p : isabs p = true -> negb (Nat.eqb (initial_slashes p) 0) = true.
Proof.
  intros H. destruct (isabs_cons _ H) as [r ->]. unfold initial_slashes.
  cbn [starts_with]. rewrite Z.eqb_refl. cbn [andb].
  repeat match goal with |- context [if ?b then _ else _] => destruct b end; reflexivity.
Qed.

Lemma normpath_eq p :
  p <> [] ->
  repeat 47 (initial_slashes p) ++ join_with 47 (path_comps p) <> [] ->
  normpath p = repeat 47 (initial_slashes p) ++ join_with 47 (path_comps p).
Proof.
  intros Hp Hr. unfold normpath. destruct p as [|c p']; [congruence|].
  cbv zeta. destruct (repeat 47 (initial_slashes (c :: p')) ++ join_with 47 (path_comps (c :: p')));
    [congruence|reflexivity].
Qed.

Section Main.
  Variable is_word is_digit : Z -> bool.

  Lemma inside chk name run :
    validate is_word is_digit chk name = Ok -> isabs run = true ->
    exists rest,
      rest <> [] /\ Forall real_comp rest /\
      normpath name = join_with 47 rest /\
      initial_slashes (pjoin run name) = initial_slashes run /\
      path_comps (pjoin run name) = path_comps run ++ rest /\
      (chk = true -> Forall (fun c => mem codes_eqb c reserved_names = false
                                      /\ is_run_number is_digit c = false) rest).
  Proof.
    intros Hv Hrun.
    destruct (accepted_norm is_word is_digit chk name Hv)
      as (Habs & Hne & Hrest & Hrne & Hreal & Hnp & Hres).
    exists (path_comps name). repeat split; auto.
    - now apply pjoin_slashes.
    - destruct (pjoin_cases run name Hrun Habs) as (body & _ & Hj & HS).
      unfold path_comps at 1 2. rewrite (pjoin_slashes _ _ Hrun Habs).
      rewrite (abs_slashes _ Hrun). rewrite Hj, HS.
      unfold np_stack. rewrite split_on_app, fold_left_app.
      rewrite Hrest.
      change (fold_left (np_step true) (split_on 47 body) [])
        with ([] ++ fold_left (np_step true) (split_on 47 body) []) at 1.
      rewrite np_sim.
      + rewrite rev_app_distr. reflexivity.
      + constructor.
      + apply Forall_forall. intros c Hc Hdd.
        rewrite Forall_forall in Hreal. rewrite Hrest in Hreal.
        destruct (Hreal c) as (_ & _ & H3 & _); [now apply -> in_rev|congruence].
  Qed.

  Lemma inside_string chk name run :
    validate is_word is_digit chk name = Ok -> isabs run = true ->
    normpath (pjoin run name) =
    normpath run ++ (match path_comps run with [] => [] | _ => [47] end) ++ normpath name.
  Proof.
    intros Hv Hrun.
    destruct (inside chk name run Hv Hrun) as (rest & Hne & Hreal & Hnp & Hsl & Hpc & _).
    assert (Hj : join_with 47 rest <> []).
    { apply join_nonempty; [exact Hne|]. eapply Forall_impl; [|exact Hreal].
      intros c Hc. apply Hc. }
    destruct (isabs_cons _ Hrun) as [r Er].
    rewrite (normpath_eq (pjoin run name)).
    - rewrite Hsl, Hpc, (join_app 47 _ _ Hne), Hnp.
      rewrite (normpath_eq run).
      + now rewrite <- !app_assoc.
      + rewrite Er. discriminate.
      + pose proof (abs_slashes _ Hrun) as Hs.
        destruct (initial_slashes run); [discriminate|]. discriminate.
    - unfold pjoin. destruct (isabs name); [|rewrite Er].
      + destruct (accepted_norm is_word is_digit chk name Hv) as (_ & H & _). exact H.
      + destruct (negb (nonempty (47 :: r)) || last_is 47 (47 :: r)); discriminate.
    - rewrite Hpc, (join_app 47 _ _ Hne). intros E.
      apply app_eq_nil in E. destruct E as [_ E].
      apply app_eq_nil in E. destruct E as [_ E].
      apply app_eq_nil in E. destruct E as [_ E]. congruence.
  Qed.

  (* ---------- accepted character set ---------- *)
  Lemma in_cls_split cls c :
    in_cls is_word is_digit cls c = true ->
    is_word c = true \/ is_digit c = true \/
    in_cls (fun _ => false) (fun _ => false) cls c = true.
  Proof.
    unfold in_cls. induction cls as [|it cls IH]; cbn [existsb]; [discriminate|].
    intros H. apply orb_true_iff in H. destruct H as [H|H].
    - destruct it; cbn [item_match] in *; auto; right; right; rewrite H; reflexivity.
    - destruct (IH H) as [H1|[H1|H1]]; auto. right; right. rewrite H1. apply orb_true_r.
  Qed.

  Lemma match_dollar_cases P s :
    match_dollar P s = true ->
    exists body, (s = body \/ s = body ++ [10]) /\ P body = true.
  Proof.
    unfold match_dollar. intros H. apply orb_true_iff in H. destruct H as [H|H].
    - exists s. auto.
    - apply andb_true_iff in H. destruct H as [H1 H2].
      destruct (last_is_snoc _ _ H1) as [b ->]. rewrite removelast_last in H2. eauto.
  Qed.

  Lemma accepted_chars chk name cls :
    validate is_word is_digit chk name = Ok -> In (RAllowed cls) rules ->
    exists body, (name = body \/ name = body ++ [10]) /\ body <> [] /\
                 forall c, In c body -> in_cls is_word is_digit cls c = true.
  Proof.
    intros Hv Hin. destruct (validate_ok _ _ _ _ Hv) as (Hff & _).
    pose proof (first_fail_none _ _ _ _ _ Hff _ Hin) as Hm. cbn [match_rule] in Hm.
    destruct (match_dollar_cases _ _ Hm) as (body & Hb & HP).
    apply andb_true_iff in HP. destruct HP as [H1 H2].
    exists body. split; [exact Hb|]. split; [destruct body; [discriminate|discriminate]|].
    rewrite forallb_forall in H2. exact H2.
  Qed.
End Main.
