(* Proofs/TaskBatchProofs.v — lemmas about Model/TaskBatch.v (C10, batch level) *)
From Coq Require Import List Bool Arith ZArith Lia Permutation.
From Cylc Require Import Base.Util Gen.TaskMsgTables Model.TaskMsg Model.TaskBatch
  Proofs.TaskMsgProofs Proofs.TaskMsgInv Proofs.TaskMsgEdges.
Import ListNotations.

Definition to_op (x : bmsg) : op := OpMsg (fst x) Received (snd x).
Definition b_state (r : task * list effect * bool) : task := fst (fst r).
Definition b_eff (r : task * list effect * bool) : list effect := snd (fst r).
Definition b_poll (r : task * list effect * bool) : bool := snd r.

Lemma deliver_step t x : deliver t x = step t (to_op x).
Proof. reflexivity. Qed.

(* a batch leaves the task in the state that the same messages leave it in when
   they are processed one at a time *)
Lemma batch_state t l : b_state (task_batch t l) = final t (map to_op l).
Proof.
  revert t. induction l as [|x r IH]; intros t; [reflexivity|].
  cbn [task_batch map]. rewrite final_cons. unfold b_state in *. cbn [fst]. rewrite IH. reflexivity.
Qed.

Lemma batch_app t a b :
  task_batch t (a ++ b) =
  (b_state (task_batch (b_state (task_batch t a)) b),
   b_eff (task_batch t a) ++ b_eff (task_batch (b_state (task_batch t a)) b),
   b_poll (task_batch t a) || b_poll (task_batch (b_state (task_batch t a)) b)).
Proof.
  revert t. induction a as [|x r IH]; intros t.
  - cbn. destruct (task_batch t b) as [[s e] p]. reflexivity.
  - cbn [app task_batch]. rewrite IH. unfold b_state, b_eff, b_poll. cbn [fst snd].
    rewrite app_assoc, orb_assoc. reflexivity.
Qed.

(* one single-message batch per message: same state, same effects, and the
   poll decisions OR-ed *)
Fixpoint singles (t : task) (l : list bmsg) : task * list effect * bool :=
  match l with
  | [] => (t, [], false)
  | x :: r =>
      let one := task_batch t [x] in
      let rest := singles (b_state one) r in
      (b_state rest, b_eff one ++ b_eff rest, b_poll one || b_poll rest)
  end.
Lemma batch_singles t l : task_batch t l = singles t l.
Proof.
  revert t. induction l as [|x r IH]; intros t; [reflexivity|].
  cbn [singles]. change (x :: r) with ([x] ++ r). rewrite batch_app, IH. reflexivity.
Qed.

(* the task is polled iff some message of the batch, at the point where it is
   processed, made process_message return True *)
Lemma batch_poll_iff t l :
  b_poll (task_batch t l) = true <->
  exists l1 x l2, l = l1 ++ x :: l2 /\
    asked_poll (snd (deliver (final t (map to_op l1)) x)) = true.
Proof.
  revert t. induction l as [|x r IH]; intros t.
  - cbn. split; [discriminate|]. intros (l1 & y & l2 & E & _). destruct l1; discriminate E.
  - cbn [task_batch]. unfold b_poll in *. cbn [snd]. rewrite orb_true_iff, IH. split.
    + intros [H|(l1 & y & l2 & E & H)].
      * exists [], x, r. split; [reflexivity|exact H].
      * exists (x :: l1), y, l2. split; [cbn; rewrite E; reflexivity|].
        cbn [map]. rewrite final_cons. exact H.
    + intros (l1 & y & l2 & E & H). destruct l1 as [|z l1].
      * cbn in E. injection E as <- <-. left. exact H.
      * cbn in E. injection E as <- ->. right. exists l1, y, l2. split; [reflexivity|].
        cbn [map] in H. rewrite final_cons in H. exact H.
Qed.

Lemma wf_final t ops : wf t -> wf (final t ops).
Proof. intros W. apply (run_invariant wf wf_step). exact W. Qed.

Lemma asked_poll_In e : asked_poll e = true <-> In EPoll e.
Proof.
  unfold asked_poll. rewrite existsb_exists. split.
  - intros (x & Hx & P). destruct x; try discriminate P. exact Hx.
  - intros H. exists EPoll. auto.
Qed.

(* ... which, for a reachable task, means: a message for the current submit
   number that would move the status backwards *)
Definition asks (s : status) (x : bmsg) : bool := Z.eqb (snd x) 0 && backward (fst x) s.

Lemma deliver_poll_backward t x : wf t ->
  asked_poll (snd (deliver t x)) = asks (st t) x.
Proof.
  intros W. destruct x as [m rel]. unfold deliver, asks. cbn [fst snd].
  destruct (asked_poll _) eqn:A.
  - apply asked_poll_In in A. destruct (pm_poll_only_backward _ _ _ _ W A) as (_ & N & B).
    rewrite B. assert (rel = 0%Z) by lia. subst rel. reflexivity.
  - destruct (Z.eqb rel 0) eqn:R; [|reflexivity]. apply Z.eqb_eq in R. subst rel. cbn [andb].
    destruct (backward m (st t)) eqn:B; [|reflexivity].
    rewrite Z.add_0_r, (pm_backward_polls t m W B) in A. discriminate A.
Qed.

Lemma batch_poll_backward t l : wf t ->
  b_poll (task_batch t l) = true <->
  exists l1 x l2, l = l1 ++ x :: l2 /\ asks (st (final t (map to_op l1))) x = true.
Proof.
  intros W. rewrite batch_poll_iff. split; intros (l1 & x & l2 & E & H); exists l1, x, l2; (split; [exact E|]).
  - rewrite <- deliver_poll_backward by (apply wf_final; exact W). exact H.
  - rewrite deliver_poll_backward by (apply wf_final; exact W). exact H.
Qed.

(* ---------- the order of the batch does not matter for the poll decision ---------- *)
(* messages that cannot change the status of t: stale ones, texts that are not a
   lifecycle message (custom outputs, progress messages), and messages that
   would move the status backwards *)
Definition neutral (s : status) (x : bmsg) : bool :=
  negb (Z.eqb (snd x) 0)
  || match fst x with MCustom _ | MOther => true | _ => false end
  || backward (fst x) s.

Lemma deliver_neutral t x : wf t -> neutral (st t) x = true ->
  st (fst (deliver t x)) = st t.
Proof.
  intros W N. destruct x as [m rel]. unfold neutral in N. cbn [fst snd] in N. unfold deliver. cbn [fst snd].
  destruct (Z.eqb rel 0) eqn:R; cbn [negb orb] in N.
  - apply Z.eqb_eq in R. subst rel. rewrite Z.add_0_r.
    destruct (backward m (st t)) eqn:B.
    + rewrite (pm_backward_polls t m W B). reflexivity.
    + rewrite orb_false_r in N.
      destruct (pm_edges t m Received (Z.of_nat (sn t)) W) as [E|E]; [exact E|].
      destruct m; try discriminate N; discriminate E.
  - rewrite pm_stale; [reflexivity|]. apply Z.eqb_neq in R. lia.
Qed.

Lemma batch_neutral t l : wf t -> forallb (neutral (st t)) l = true ->
  st (b_state (task_batch t l)) = st t /\
  b_poll (task_batch t l) = existsb (asks (st t)) l.
Proof.
  revert t. induction l as [|x r IH]; intros t W N; [cbn; auto|].
  cbn [forallb] in N. apply andb_true_iff in N. destruct N as [N1 N2].
  pose proof (deliver_neutral t x W N1) as S.
  assert (W' : wf (fst (deliver t x))) by (rewrite deliver_step; apply wf_step; exact W).
  rewrite <- S in N2. destruct (IH _ W' N2) as [I1 I2].
  cbn [task_batch existsb]. unfold b_state, b_poll in *. cbn [fst snd].
  rewrite I1, I2, S, (deliver_poll_backward t x W). auto.
Qed.

Lemma existsb_perm {A} (f : A -> bool) l l' : Permutation l l' -> existsb f l = existsb f l'.
Proof.
  induction 1; cbn; try congruence.
  - rewrite !orb_assoc, (orb_comm (f y)). reflexivity.
Qed.
Lemma forallb_perm {A} (f : A -> bool) l l' : Permutation l l' -> forallb f l = forallb f l'.
Proof.
  induction 1; cbn; try congruence.
  - rewrite !andb_assoc, (andb_comm (f y)). reflexivity.
Qed.

Lemma batch_poll_order t l l' : wf t -> Permutation l l' ->
  forallb (neutral (st t)) l = true ->
  b_poll (task_batch t l) = b_poll (task_batch t l') /\
  st (b_state (task_batch t l)) = st (b_state (task_batch t l')).
Proof.
  intros W P N. pose proof N as N'. rewrite (forallb_perm _ _ _ P) in N'.
  destruct (batch_neutral t l W N) as [A1 A2]. destruct (batch_neutral t l' W N') as [B1 B2].
  rewrite A1, A2, B1, B2, (existsb_perm _ _ _ P). auto.
Qed.

(* the decision "only the last message counts" is a different function *)
Definition last_only (t : task) (l : list bmsg) : bool :=
  match rev l with
  | [] => false
  | x :: r => asked_poll (snd (deliver (final t (map to_op (rev r))) x))
  end.
Lemma last_only_differs :
  let t := final (fresh 0 0 1) [OpPrep; OpMsg MStarted Received 0%Z; OpMsg MFailed Received 0%Z] in
  let l := [(MStarted, 0%Z); (MCustom 0, 0%Z)] in
  b_poll (task_batch t l) = true /\ last_only t l = false.
Proof. vm_compute. auto. Qed.
