(* Proofs/PointAlgProofs.v — lemmas about Model/PointAlg.v *)
From Coq Require Import List ZArith String Ascii Bool Lia Permutation Sorted
  DecimalString DecimalZ DecimalPos.
From Cylc Require Import Base.Util Model.PointAlg.
Import ListNotations.
Local Open Scope Z_scope.

(* ------------------------------------------------------------------ *)
(* str(int) / int(str) round trip                                      *)
(* ------------------------------------------------------------------ *)
Definition starts_plus (s : string) : bool :=
  match s with String "+"%char _ => true | _ => false end.

Lemma string_of_uint_no_plus d : starts_plus (NilZero.string_of_uint d) = false.
Proof. destruct d; reflexivity. Qed.

Lemma show_z_no_plus z : starts_plus (show_z z) = false.
Proof.
  unfold show_z. destruct (Z.to_int z) as [d|d]; cbn [NilZero.string_of_int].
  - apply string_of_uint_no_plus.
  - reflexivity.
Qed.

Lemma parse_int_no_plus s :
  starts_plus s = false -> parse_int s = option_map Z.of_int (NilZero.int_of_string s).
Proof.
  destruct s as [|a r]; [reflexivity|].
  destruct a as [[|] [|] [|] [|] [|] [|] [|] [|]]; cbn; try reflexivity; discriminate.
Qed.

Lemma to_int_not_nil z : Z.to_int z <> Decimal.Pos Decimal.Nil /\ Z.to_int z <> Decimal.Neg Decimal.Nil.
Proof.
  destruct z as [|p|p]; cbn; split; try discriminate; intros [= E];
    exact (Unsigned.to_uint_nonnil p E).
Qed.

Lemma parse_show z : parse_int (show_z z) = Some z.
Proof.
  rewrite parse_int_no_plus by apply show_z_no_plus.
  unfold show_z. destruct (to_int_not_nil z) as [H1 H2].
  rewrite NilZero.isi by assumption. cbn. now rewrite DecimalZ.of_to.
Qed.

Lemma parse_uint_show z : 0 <= z -> parse_uint (show_z z) = Some z.
Proof.
  intros Hz. unfold parse_uint, show_z.
  destruct z as [|p|p]; [reflexivity| |lia].
  cbn [Z.to_int NilZero.string_of_int].
  rewrite NilZero.usu by apply Unsigned.to_uint_nonnil.
  cbn. unfold Z.of_uint. now rewrite Unsigned.of_to.
Qed.

Lemma iparse_from_integer z : iparse (from_integer z) = Some z.
Proof.
  unfold from_integer. destruct (z <? 0) eqn:E.
  - apply Z.ltb_lt in E. cbn. rewrite parse_uint_show by lia. cbn. f_equal. lia.
  - apply Z.ltb_ge in E. cbn. now apply parse_uint_show.
Qed.

(* ------------------------------------------------------------------ *)
(* comparison                                                          *)
(* ------------------------------------------------------------------ *)
Lemma pcmp_value a b x y :
  parse_int a = Some x -> parse_int b = Some y -> pcmp a b = Ok (x ?= y).
Proof.
  intros Ha Hb. unfold pcmp, pint. destruct (String.eqb_spec a b) as [->|Hne].
  - rewrite Ha in Hb. injection Hb as ->. now rewrite Z.compare_refl.
  - now rewrite Ha, Hb.
Qed.

Lemma pcmp_same a : pcmp a a = Ok Eq.
Proof. unfold pcmp. now rewrite String.eqb_refl. Qed.

Lemma icmp_value i j x y :
  iparse i = Some x -> iparse j = Some y -> icmp i j = Ok (x ?= y).
Proof.
  intros Ha Hb. unfold icmp. destruct (String.eqb_spec i j) as [->|Hne].
  - rewrite Ha in Hb. injection Hb as ->. now rewrite Z.compare_refl.
  - now rewrite Ha, Hb.
Qed.

Lemma is_eq_compare x y : is_eq (x ?= y) = (x =? y).
Proof. rewrite Z.eqb_compare. now destruct (x ?= y). Qed.
Lemma is_lt_compare x y : is_lt (x ?= y) = (x <? y).
Proof. unfold Z.ltb. now destruct (x ?= y). Qed.
Lemma is_gt_compare x y : is_gt (x ?= y) = (y <? x).
Proof. unfold Z.ltb. rewrite (Z.compare_antisym x y). now destruct (x ?= y). Qed.

(* the six rich comparisons, in terms of the integer values *)
Lemma p_ops_value a b x y :
  parse_int a = Some x -> parse_int b = Some y ->
  p_eq a b = Ok (x =? y) /\ p_lt a b = Ok (x <? y) /\ p_le a b = Ok (x <=? y) /\
  p_gt a b = Ok (y <? x) /\ p_ge a b = Ok (y <=? x).
Proof.
  intros Ha Hb. unfold p_eq, p_lt, p_le, p_gt, p_ge.
  rewrite (pcmp_value a b x y Ha Hb). cbn [bind].
  rewrite is_eq_compare, is_lt_compare, is_gt_compare.
  repeat split; try reflexivity; f_equal; lia.
Qed.

(* ------------------------------------------------------------------ *)
(* standardise                                                         *)
(* ------------------------------------------------------------------ *)
Definition standardised (s : string) : Prop := pstd s = Ok s.

Lemma pstd_spec s s' :
  pstd s = Ok s' -> exists x, parse_int s = Some x /\ s' = show_z x.
Proof.
  unfold pstd. destruct (parse_int s) as [x|]; [|discriminate].
  intros [= <-]. eauto.
Qed.

Lemma pstd_idem s s' :
  pstd s = Ok s' -> pstd s' = Ok s' /\ parse_int s' = parse_int s.
Proof.
  intros H. destruct (pstd_spec _ _ H) as [x [Hx ->]].
  unfold pstd. rewrite parse_show, Hx. auto.
Qed.

Lemma standardised_show z : standardised (show_z z).
Proof. unfold standardised, pstd. now rewrite parse_show. Qed.

Lemma standardised_iff s : standardised s <-> exists z, s = show_z z.
Proof.
  split.
  - intros H. destruct (pstd_spec _ _ H) as [x [_ E]]. eauto.
  - intros [z ->]. apply standardised_show.
Qed.

Lemma standardised_value s : standardised s -> exists x, parse_int s = Some x /\ s = show_z x.
Proof. intros H. exact (pstd_spec _ _ H). Qed.

(* equal standardised points are the same string, hence hash equal *)
Lemma std_eq_same_string a b :
  standardised a -> standardised b -> p_eq a b = Ok true -> a = b.
Proof.
  intros Ha Hb. destruct (standardised_value _ Ha) as [x [Hx Ea]].
  destruct (standardised_value _ Hb) as [y [Hy Eb]].
  destruct (p_ops_value a b x y Hx Hy) as [E _]. rewrite E. intros [= H].
  apply Z.eqb_eq in H. congruence.
Qed.

(* ------------------------------------------------------------------ *)
(* arithmetic                                                          *)
(* ------------------------------------------------------------------ *)
Lemma padd_value p x d : parse_int p = Some x -> padd p d = Ok (show_z (x + d)).
Proof. intros H. unfold padd, pint. now rewrite H. Qed.
Lemma psub_value p x d : parse_int p = Some x -> psub p d = Ok (show_z (x - d)).
Proof. intros H. unfold psub, pint. now rewrite H. Qed.

Lemma add_sub_value p x d :
  parse_int p = Some x ->
  bind (padd p d) (fun s => psub s d) = Ok (show_z x).
Proof.
  intros H. rewrite (padd_value p x d H). cbn [bind].
  rewrite (psub_value _ (x + d) d (parse_show _)). f_equal. f_equal. lia.
Qed.

Lemma sub_add_value p x d :
  parse_int p = Some x ->
  bind (psub p d) (fun s => padd s d) = Ok (show_z x).
Proof.
  intros H. rewrite (psub_value p x d H). cbn [bind].
  rewrite (padd_value _ (x - d) d (parse_show _)). f_equal. f_equal. lia.
Qed.

Lemma psubp_value p q x y :
  parse_int p = Some x -> parse_int q = Some y -> psubp p q = Ok (from_integer (x - y)).
Proof. intros Hp Hq. unfold psubp, pint. now rewrite Hp, Hq. Qed.

(* q + (p - q) = p *)
Lemma diff_add_value p q x y :
  parse_int p = Some x -> parse_int q = Some y ->
  bind (psubp p q) (fun i => bind (mk_interval i) (fun d => padd q d)) = Ok (show_z x).
Proof.
  intros Hp Hq. rewrite (psubp_value p q x y Hp Hq). cbn [bind].
  unfold mk_interval. rewrite iparse_from_integer. cbn [bind].
  rewrite (padd_value q y _ Hq). f_equal. f_equal. lia.
Qed.

(* ------------------------------------------------------------------ *)
(* sorted()                                                            *)
(* ------------------------------------------------------------------ *)
Definition value_of (s : string) : Z := match parse_int s with Some x => x | None => 0 end.
Definition all_parse (l : list string) : Prop := forall s, In s l -> exists x, parse_int s = Some x.
Definition le_val (a b : string) : Prop := value_of a <= value_of b.

Lemma p_lt_value a b :
  (exists x, parse_int a = Some x) -> (exists y, parse_int b = Some y) ->
  p_lt a b = Ok (value_of a <? value_of b).
Proof.
  intros [x Hx] [y Hy]. destruct (p_ops_value a b x y Hx Hy) as [_ [E _]].
  unfold value_of. now rewrite Hx, Hy.
Qed.

Lemma le_val_trans a b c : le_val a b -> le_val b c -> le_val a c.
Proof. unfold le_val. lia. Qed.

Lemma pinsert_spec x l :
  (exists v, parse_int x = Some v) -> all_parse l -> Sorted le_val l ->
  exists l', pinsert x l = Ok l' /\ Permutation (x :: l) l' /\ Sorted le_val l' /\
             (forall y, HdRel le_val y l -> le_val y x -> HdRel le_val y l').
Proof.
  intros Hx. induction l as [|y r IH]; intros Hall Hs.
  - exists [x]. cbn. split; [reflexivity|]. split; [reflexivity|]. split.
    + constructor; constructor.
    + intros y _ H. now constructor.
  - cbn [pinsert]. rewrite p_lt_value; [|apply Hall; now left|exact Hx]. cbn [bind].
    destruct (value_of y <? value_of x) eqn:E.
    + apply Z.ltb_lt in E.
      assert (Hall' : all_parse r) by (intros s Hin; apply Hall; now right).
      inversion Hs as [|? ? Hs' Hhd]; subst.
      destruct (IH Hall' Hs') as [r' [E1 [P1 [S1 H1]]]].
      rewrite E1. cbn [bind]. exists (y :: r').
      split; [reflexivity|]. split; [|split].
      * rewrite perm_swap. now constructor.
      * constructor; [exact S1|]. apply H1; [exact Hhd|]. unfold le_val. lia.
      * intros y0 Hy0 _. constructor. now inversion Hy0.
    + apply Z.ltb_ge in E. exists (x :: y :: r).
      split; [reflexivity|]. split; [reflexivity|]. split.
      * constructor; [exact Hs|]. constructor. exact E.
      * intros y0 _ H. now constructor.
Qed.

Lemma psort_spec l :
  all_parse l -> exists l', psort l = Ok l' /\ Permutation l l' /\ Sorted le_val l'.
Proof.
  induction l as [|x r IH]; intros Hall.
  - exists []. cbn. auto.
  - assert (Hall' : all_parse r) by (intros s Hin; apply Hall; now right).
    destruct (IH Hall') as [r' [E [P S]]]. cbn [psort]. rewrite E. cbn [bind].
    assert (Hall'' : all_parse r').
    { intros s Hin. apply Hall'. eapply Permutation_in; [symmetry; exact P|exact Hin]. }
    destruct (pinsert_spec x r' (Hall x (or_introl eq_refl)) Hall'' S) as [l' [E' [P' [S' _]]]].
    exists l'. repeat split; auto.
    rewrite <- P'. now constructor.
Qed.

(* ------------------------------------------------------------------ *)
(* datetime points over an abstract calendar                           *)
(* ------------------------------------------------------------------ *)
Section IsoProofs.
  Variable inst : string -> option Z.
  Variable fmt : Z -> string.
  Variable resol : Z.
  Variable isecs : string -> option Z.
  (* the format has a positive resolution, and parsing the dump of an
     instant on the format's grid gives that instant back *)
  Hypothesis H_res : 0 < resol.
  Hypothesis H_fmt_inst : forall z, z mod resol = 0 -> inst (fmt z) = Some z.

  Let gfl := gfloor resol.
  Let std := dstd inst fmt resol.
  Let cmpd := dcmp inst.
  Let add := dadd inst fmt resol isecs.
  Let sub := dsub inst fmt resol isecs.

  Lemma gfloor_on_grid z : gfloor resol z mod resol = 0.
  Proof. unfold gfloor. rewrite Z.mul_comm. apply Z.mod_mul. lia. Qed.

  Lemma gfloor_fix z : z mod resol = 0 -> gfloor resol z = z.
  Proof.
    intros H. unfold gfloor. pose proof (Z.div_mod z resol ltac:(lia)). lia.
  Qed.

  Lemma grid_add z d : z mod resol = 0 -> d mod resol = 0 -> (z + d) mod resol = 0.
  Proof.
    intros Hz Hd. apply Z.mod_divide; [lia|].
    apply Z.divide_add_r; apply Z.mod_divide; auto; lia.
  Qed.

  Lemma gfloor_add_grid z d : z mod resol = 0 -> d mod resol = 0 -> gfloor resol (z + d) = z + d.
  Proof. intros Hz Hd. apply gfloor_fix. now apply grid_add. Qed.

  Lemma dcmp_value a b x y :
    inst a = Some x -> inst b = Some y -> dcmp inst a b = Ok (x ?= y).
  Proof.
    intros Ha Hb. unfold dcmp. destruct (String.eqb_spec a b) as [->|Hne].
    - rewrite Ha in Hb. injection Hb as ->. now rewrite Z.compare_refl.
    - now rewrite Ha, Hb.
  Qed.

  Lemma dstd_spec s s' :
    dstd inst fmt resol s = Ok s' ->
    exists z, inst s = Some z /\ s' = fmt (gfloor resol z) /\ inst s' = Some (gfloor resol z).
  Proof.
    unfold dstd. destruct (inst s) as [z|]; [|discriminate]. intros [= <-].
    exists z. repeat split. apply H_fmt_inst, gfloor_on_grid.
  Qed.

  Lemma dstd_idem s s' :
    dstd inst fmt resol s = Ok s' ->
    dstd inst fmt resol s' = Ok s' /\
    (forall z, inst s = Some z -> z mod resol = 0 -> inst s' = Some z).
  Proof.
    intros H. destruct (dstd_spec _ _ H) as [z [Hz [E Hi]]]. split.
    - unfold dstd. rewrite Hi. rewrite gfloor_fix by apply gfloor_on_grid. now rewrite E.
    - intros z' Hz' Hg. rewrite Hz in Hz'. injection Hz' as <-. rewrite Hi. f_equal. now apply gfloor_fix.
  Qed.

  Lemma dstd_eq_same_string a0 b0 a b :
    dstd inst fmt resol a0 = Ok a -> dstd inst fmt resol b0 = Ok b ->
    dcmp inst a b = Ok Eq -> a = b.
  Proof.
    intros Ha Hb. destruct (dstd_spec _ _ Ha) as [x [_ [Ea Hia]]].
    destruct (dstd_spec _ _ Hb) as [y [_ [Eb Hib]]].
    rewrite (dcmp_value a b _ _ Hia Hib). intros [= H]. apply Z.compare_eq in H. congruence.
  Qed.

  Lemma dadd_dsub p0 p i d :
    dstd inst fmt resol p0 = Ok p -> isecs i = Some d -> d mod resol = 0 ->
    exists q z, inst p = Some z /\
      dadd inst fmt resol isecs p i = Ok q /\ inst q = Some (z + d) /\
      dsub inst fmt resol isecs q i = Ok p.
  Proof.
    intros Hp Hi Hd. destruct (dstd_spec _ _ Hp) as [x [_ [Ep Hip]]].
    pose proof (gfloor_on_grid x) as Hg. set (z := gfloor resol x) in *.
    exists (fmt (z + d)), z. unfold dadd, dsub. rewrite Hip, Hi.
    rewrite (gfloor_add_grid z d Hg Hd).
    assert (Hq : inst (fmt (z + d)) = Some (z + d)).
    { apply H_fmt_inst. rewrite <- (gfloor_add_grid z d Hg Hd). apply gfloor_on_grid. }
    rewrite Hq. repeat split; auto.
    replace (z + d - d) with z by lia. rewrite (gfloor_fix z Hg). now rewrite Ep.
  Qed.
End IsoProofs.

(* ------------------------------------------------------------------ *)
(* total-order laws, for any comparison that is Z.compare on values     *)
(* ------------------------------------------------------------------ *)
Lemma Ok_inj {A} (x y : A) : @Ok A x = Ok y <-> x = y.
Proof. split; [now intros [= ->]|now intros ->]. Qed.

Lemma compare_order_laws (x y z : Z) :
  ((x ?= y) = Eq <-> x = y) /\
  ((x ?= y) = Lt <-> (y ?= x) = Gt) /\
  ((x ?= y) = Lt -> (y ?= z) = Lt -> (x ?= z) = Lt) /\
  ((x ?= y) = Lt \/ (x ?= y) = Eq \/ (x ?= y) = Gt).
Proof.
  rewrite !Z.compare_eq_iff, !Z.compare_lt_iff, !Z.compare_gt_iff.
  repeat split; lia.
Qed.

Lemma pcmp_order_laws a b c x y z :
  parse_int a = Some x -> parse_int b = Some y -> parse_int c = Some z ->
  pcmp a a = Ok Eq /\
  (pcmp a b = Ok Eq <-> x = y) /\
  (pcmp a b = Ok Lt <-> pcmp b a = Ok Gt) /\
  (pcmp a b = Ok Lt -> pcmp b c = Ok Lt -> pcmp a c = Ok Lt) /\
  (pcmp a b = Ok Lt \/ pcmp a b = Ok Eq \/ pcmp a b = Ok Gt).
Proof.
  intros Ha Hb Hc.
  rewrite (pcmp_value a b x y Ha Hb), (pcmp_value b a y x Hb Ha),
    (pcmp_value b c y z Hb Hc), (pcmp_value a c x z Ha Hc), !Ok_inj.
  split; [apply pcmp_same|]. apply compare_order_laws.
Qed.

Lemma dcmp_order_laws (inst : string -> option Z) a b c x y z :
  inst a = Some x -> inst b = Some y -> inst c = Some z ->
  dcmp inst a a = Ok Eq /\
  (dcmp inst a b = Ok Eq <-> x = y) /\
  (dcmp inst a b = Ok Lt <-> dcmp inst b a = Ok Gt) /\
  (dcmp inst a b = Ok Lt -> dcmp inst b c = Ok Lt -> dcmp inst a c = Ok Lt) /\
  (dcmp inst a b = Ok Lt \/ dcmp inst a b = Ok Eq \/ dcmp inst a b = Ok Gt).
Proof.
  intros Ha Hb Hc.
  rewrite (dcmp_value inst a b x y Ha Hb), (dcmp_value inst b a y x Hb Ha),
    (dcmp_value inst b c y z Hb Hc), (dcmp_value inst a c x z Ha Hc), !Ok_inj.
  split; [unfold dcmp; now rewrite String.eqb_refl|]. apply compare_order_laws.
Qed.

(* ------------------------------------------------------------------ *)
(* several configurations in one process                               *)
(* ------------------------------------------------------------------ *)
Section ReinitProofs.
  Variable isecs : string -> option Z.
  Variable keyf : config -> Z.
  (* the key determines everything the cached functions depend on *)
  Hypothesis key_sound : forall c1 c2 o, keyf c1 = keyf c2 -> pure_rop isecs c1 o = pure_rop isecs c2 o.

  Definition kind_op (kind : Z) (a b : string) : rop :=
    if kind =? 0 then RCmp a b else if kind =? 1 then RAdd a b else RSub a b.

  (* every entry is what any configuration with that key would compute *)
  Definition cache_ok (cache : list (centry)) : Prop :=
    forall kind a b k r, In (kind, a, b, k, r) cache ->
    forall c, keyf c = k -> pure_rop isecs c (kind_op kind a b) = r.

  Lemma clookup_In kind a b k cache r :
    clookup kind a b k cache = Some r -> In (kind, a, b, k, r) cache.
  Proof.
    induction cache as [|[[[[kind' a'] b'] k'] r'] rest IH]; cbn [clookup]; [discriminate|].
    destruct (Z.eqb_spec kind kind') as [->|]; cbn [andb]; [|intros H; right; auto].
    destruct (String.eqb_spec a a') as [->|]; cbn [andb]; [|intros H; right; auto].
    destruct (String.eqb_spec b b') as [->|]; cbn [andb]; [|intros H; right; auto].
    destruct (Z.eqb_spec k k') as [->|]; [|intros H; right; auto].
    intros [= ->]. now left.
  Qed.

  Lemma cached_spec kind a b c cache o r cache' :
    o = kind_op kind a b -> cache_ok cache ->
    cached isecs keyf kind a b c cache o = (r, cache') ->
    r = pure_rop isecs c o /\ cache_ok cache'.
  Proof.
    intros Eo Hc. unfold cached. destruct (clookup kind a b (keyf c) cache) as [r0|] eqn:El.
    - intros [= <- <-]. split; [|exact Hc].
      apply clookup_In in El. rewrite Eo. symmetry. exact (Hc _ _ _ _ _ El c eq_refl).
    - intros [= <- <-]. split; [reflexivity|].
      destruct (is_rerr (pure_rop isecs c o)); [exact Hc|].
      intros kind' a' b' k' r' [E|Hin]; [|eauto].
      injection E as <- <- <- <- <-. intros c' Hk. rewrite <- Eo. now apply key_sound.
  Qed.

  Lemma run_rop_spec c cache o r cache' :
    cache_ok cache -> run_rop isecs keyf c cache o = (r, cache') ->
    r = pure_rop isecs c o /\ cache_ok cache'.
  Proof.
    intros Hc. destruct o as [a b|a|p i|p i]; cbn [run_rop].
    - destruct (String.eqb_spec a b) as [->|Hne].
      + intros [= <- <-]. split; [|exact Hc]. cbn. unfold dcmp. now rewrite String.eqb_refl.
      + apply cached_spec; auto.
    - intros [= <- <-]. auto.
    - apply cached_spec; auto.
    - apply cached_spec; auto.
  Qed.

  Lemma run_scenario_spec steps : forall cache,
    cache_ok cache ->
    run_scenario isecs keyf cache steps = map (fun '(c, o) => pure_rop isecs c o) steps.
  Proof.
    induction steps as [|[c o] rest IH]; intros cache Hc; cbn [run_scenario map]; [reflexivity|].
    destruct (run_rop isecs keyf c cache o) as [r cache'] eqn:E.
    destruct (run_rop_spec _ _ _ _ _ Hc E) as [-> Hc']. f_equal. now apply IH.
  Qed.
End ReinitProofs.
