(* Proofs/SubProcProofs.v — lemmas about Model/SubProc.v (C42) *)
From Coq Require Import List Bool Arith Lia.
From Cylc Require Import Base.Util Model.SubProc.
Import ListNotations.

Notation ids := (map c_id).
Definition occ (i : nat) (l : list nat) : nat := count_occ Nat.eq_dec l i.
Arguments occ : simpl never.

Lemma occ_app i a b : occ i (a ++ b) = occ i a + occ i b.
Proof. apply count_occ_app. Qed.

Lemma occ_cons i x l : occ i (x :: l) = (if Nat.eq_dec x i then 1 else 0) + occ i l.
Proof. unfold occ. cbn [count_occ]. destruct (Nat.eq_dec x i); reflexivity. Qed.

Lemma occ_nil i : occ i [] = 0.
Proof. reflexivity. Qed.

Lemma occ_In i l : In i l <-> occ i l > 0.
Proof. apply count_occ_In. Qed.

Lemma occ_filter_split i (f : cmd -> bool) l :
  occ i (ids l) = occ i (ids (filter f l)) + occ i (ids (filter (fun c => negb (f c)) l)).
Proof.
  induction l as [|c r IH]; [reflexivity|]. cbn [filter map].
  destruct (f c); cbn [negb map]; rewrite !occ_cons; lia.
Qed.

Lemma filter_length_le {A} (f : A -> bool) l : length (filter f l) <= length l.
Proof. induction l as [|x r IH]; cbn; [lia|]. destruct (f x); cbn; lia. Qed.

(* ================================================================== *)
(* the launch loop                                                     *)
Lemma launch_bound fx stopping size : forall queue running q' r' cbs dr,
  launch fx stopping size queue running = (q', r', cbs, dr) ->
  length running <= size -> length r' <= size.
Proof.
  induction queue as [|c q IH]; intros running q' r' cbs dr; cbn [launch].
  - intros [= <- <- <- <-]. auto.
  - destruct (Nat.ltb_spec (length running) size) as [Hlt|Hge].
    + destruct (stopping && c_submit c).
      * destruct (launch fx stopping size q running) as [[[q1 r1] c1] d1] eqn:E.
        destruct fx; intros [= <- <- <- <-] H; eapply IH; eauto.
      * destruct (c_bad c).
        -- destruct (launch fx stopping size q running) as [[[q1 r1] c1] d1] eqn:E.
           intros [= <- <- <- <-] H; eapply IH; eauto.
        -- intros E H. eapply IH; [exact E|]. rewrite app_length. cbn. lia.
    + intros [= <- <- <- <-]. auto.
Qed.

(* what is added to the running list *)
Lemma launch_new fx stopping size : forall queue running q' r' cbs dr,
  launch fx stopping size queue running = (q', r', cbs, dr) ->
  forall c, In c r' -> In c running \/
    (In c queue /\ c_bad c = false /\ (stopping = true -> c_submit c = false)).
Proof.
  induction queue as [|c q IH]; intros running q' r' cbs dr; cbn [launch].
  - intros [= <- <- <- <-]. auto.
  - destruct (Nat.ltb (length running) size).
    + destruct (stopping && c_submit c) eqn:Es.
      * destruct (launch fx stopping size q running) as [[[q1 r1] c1] d1] eqn:E.
        destruct fx; intros [= <- <- <- <-] x Hx;
          (destruct (IH _ _ _ _ _ E x Hx) as [?|[? ?]]; [auto|right; split; [now right|auto]]).
      * destruct (c_bad c) eqn:Eb.
        -- destruct (launch fx stopping size q running) as [[[q1 r1] c1] d1] eqn:E.
           intros [= <- <- <- <-] x Hx.
           destruct (IH _ _ _ _ _ E x Hx) as [?|[? ?]]; [auto|right; split; [now right|auto]].
        -- intros E x Hx. destruct (IH _ _ _ _ _ E x Hx) as [H|[? ?]].
           ++ apply in_app_iff in H. destruct H as [H|[<-|[]]]; [auto|].
              right. split; [now left|]. split; [exact Eb|]. intros ->. cbn in Es. exact Es.
           ++ right. split; [now right|auto].
    + intros [= <- <- <- <-]. auto.
Qed.

(* nothing is lost, nothing is invented *)
Lemma launch_count fx stopping size i : forall queue running q' r' cbs dr,
  launch fx stopping size queue running = (q', r', cbs, dr) ->
  occ i (ids queue) + occ i (ids running)
  = occ i (ids q') + occ i (ids r') + occ i (map fst cbs) + occ i dr.
Proof.
  induction queue as [|c q IH]; intros running q' r' cbs dr; cbn [launch].
  - intros [= <- <- <- <-]. cbn. rewrite ?occ_nil. lia.
  - destruct (Nat.ltb (length running) size).
    + destruct (stopping && c_submit c).
      * destruct (launch fx stopping size q running) as [[[q1 r1] c1] d1] eqn:E.
        specialize (IH _ _ _ _ _ E).
        destruct fx; intros [= <- <- <- <-]; cbn [map fst]; rewrite !occ_cons; lia.
      * destruct (c_bad c).
        -- destruct (launch fx stopping size q running) as [[[q1 r1] c1] d1] eqn:E.
           specialize (IH _ _ _ _ _ E).
           intros [= <- <- <- <-]; cbn [map fst]; rewrite !occ_cons; lia.
        -- intros E. specialize (IH _ _ _ _ _ E). cbn [map]. rewrite occ_cons.
           rewrite map_app, occ_app in IH. cbn [map] in IH.
           rewrite occ_cons, occ_nil in IH. lia.
    + intros [= <- <- <- <-]. cbn [map]. rewrite ?occ_nil. lia.
Qed.

Lemma launch_fixed_no_drop stopping size : forall queue running q' r' cbs dr,
  launch true stopping size queue running = (q', r', cbs, dr) -> dr = [].
Proof.
  induction queue as [|c q IH]; intros running q' r' cbs dr; cbn [launch].
  - intros [= <- <- <- <-]. auto.
  - destruct (Nat.ltb (length running) size).
    + destruct (stopping && c_submit c).
      * destruct (launch true stopping size q running) as [[[q1 r1] c1] d1] eqn:E.
        intros [= <- <- <- <-]. eapply IH; eauto.
      * destruct (c_bad c).
        -- destruct (launch true stopping size q running) as [[[q1 r1] c1] d1] eqn:E.
           intros [= <- <- <- <-]. eapply IH; eauto.
        -- intros E. eapply IH; eauto.
    + intros [= <- <- <- <-]. auto.
Qed.

(* the unfixed loop drops only queued jobs-submit commands, only while stopping *)
Lemma launch_drop_reason fx stopping size : forall queue running q' r' cbs dr,
  launch fx stopping size queue running = (q', r', cbs, dr) ->
  forall i, In i dr -> stopping = true /\ exists c, In c queue /\ c_id c = i /\ c_submit c = true.
Proof.
  induction queue as [|c q IH]; intros running q' r' cbs dr; cbn [launch].
  - intros [= <- <- <- <-] i [].
  - destruct (Nat.ltb (length running) size).
    + destruct (stopping && c_submit c) eqn:Es.
      * destruct (launch fx stopping size q running) as [[[q1 r1] c1] d1] eqn:E.
        apply andb_true_iff in Es. destruct Es as [Es1 Es2].
        destruct fx; intros [= <- <- <- <-] i Hi.
        -- destruct (IH _ _ _ _ _ E i Hi) as [H1 [x [Hx H2]]]. split; [auto|]. exists x. split; [now right|auto].
        -- destruct Hi as [<-|Hi].
           ++ split; [auto|]. exists c. split; [now left|auto].
           ++ destruct (IH _ _ _ _ _ E i Hi) as [H1 [x [Hx H2]]]. split; [auto|]. exists x. split; [now right|auto].
      * destruct (c_bad c).
        -- destruct (launch fx stopping size q running) as [[[q1 r1] c1] d1] eqn:E.
           intros [= <- <- <- <-] i Hi.
           destruct (IH _ _ _ _ _ E i Hi) as [H1 [x [Hx H2]]]. split; [auto|]. exists x. split; [now right|auto].
        -- intros E i Hi.
           destruct (IH _ _ _ _ _ E i Hi) as [H1 [x [Hx H2]]]. split; [auto|]. exists x. split; [now right|auto].
    + intros [= <- <- <- <-] i [].
Qed.

(* ================================================================== *)
(* process / step                                                      *)
Lemma process_spec fx done p p' o :
  process fx done p = (p', o) ->
  exists q' r' cbs dr,
    launch fx (p_stopping p) (p_size p) (p_queue p)
           (filter (fun c => negb (is_done done c)) (p_running p)) = (q', r', cbs, dr)
    /\ p' = {| p_size := p_size p; p_queue := q'; p_running := r';
               p_stopping := p_stopping p; p_closed := p_closed p |}
    /\ o = {| o_callbacks := map (fun c => (c_id c, false)) (filter (is_done done) (p_running p)) ++ cbs;
              o_dropped := dr |}.
Proof.
  unfold process.
  destruct (launch fx (p_stopping p) (p_size p) (p_queue p)
                   (filter (fun c => negb (is_done done c)) (p_running p))) as [[[q' r'] cbs] dr] eqn:E.
  intros [= <- <-]. exists q', r', cbs, dr. auto.
Qed.

Lemma process_bound fx done p p' o :
  process fx done p = (p', o) -> length (p_running p) <= p_size p ->
  length (p_running p') <= p_size p' /\ p_size p' = p_size p.
Proof.
  intros E H. destruct (process_spec _ _ _ _ _ E) as (q' & r' & cbs & dr & El & -> & _). cbn.
  split; [|reflexivity]. eapply launch_bound; [exact El|].
  pose proof (filter_length_le (fun c => negb (is_done done c)) (p_running p)). lia.
Qed.

Lemma map_fst_cb (l : list cmd) : map fst (map (fun c => (c_id c, false)) l) = ids l.
Proof. rewrite map_map. reflexivity. Qed.

Definition cb_ids (o : outcome) : list nat := map fst (o_callbacks o).

Lemma process_count fx done p p' o i :
  process fx done p = (p', o) ->
  occ i (ids (p_queue p)) + occ i (ids (p_running p))
  = occ i (ids (p_queue p')) + occ i (ids (p_running p')) + occ i (cb_ids o) + occ i (o_dropped o).
Proof.
  intros E. destruct (process_spec _ _ _ _ _ E) as (q' & r' & cbs & dr & El & -> & ->).
  unfold cb_ids. cbn [p_queue p_running o_callbacks o_dropped].
  rewrite map_app, occ_app, map_fst_cb.
  pose proof (launch_count _ _ _ i _ _ _ _ _ _ El).
  pose proof (occ_filter_split i (is_done done) (p_running p)). lia.
Qed.

Definition put_ids (e : event) : list nat := match e with EPut c => [c_id c] | _ => [] end.

Lemma step_count fx p e p' o i :
  step fx p e = (p', o) ->
  occ i (ids (p_queue p)) + occ i (ids (p_running p)) + occ i (put_ids e)
  = occ i (ids (p_queue p')) + occ i (ids (p_running p')) + occ i (cb_ids o) + occ i (o_dropped o).
Proof.
  destruct e as [c|done| | |done]; cbn [step put_ids].
  - destruct (p_closed p || (p_stopping p && c_submit c)); intros [= <- <-]; unfold cb_ids; cbn.
    + rewrite ?occ_cons, ?occ_nil. lia.
    + rewrite map_app, occ_app. cbn [map]. rewrite ?occ_cons, ?occ_nil. lia.
  - intros E. rewrite occ_nil. pose proof (process_count _ _ _ _ _ i E). lia.
  - intros [= <- <-]. unfold cb_ids. cbn. rewrite ?occ_nil. lia.
  - intros [= <- <-]. unfold cb_ids. cbn. rewrite ?occ_nil. lia.
  - destruct (process fx done _) as [p2 o2] eqn:E. intros [= <- <-].
    pose proof (process_count _ _ _ _ _ i E) as H. cbn [p_queue p_running map] in H.
    rewrite occ_nil in *. unfold cb_ids in *.
    destruct fx; cbn [o_callbacks o_dropped].
    + rewrite map_app, occ_app, map_map. cbn [fst]. rewrite map_id. lia.
    + rewrite occ_app. lia.
Qed.

Lemma step_bound fx p e p' o :
  step fx p e = (p', o) -> length (p_running p) <= p_size p ->
  length (p_running p') <= p_size p' /\ p_size p' = p_size p.
Proof.
  destruct e as [c|done| | |done]; cbn [step].
  - destruct (p_closed p || (p_stopping p && c_submit c)); intros [= <- <-]; cbn; auto.
  - apply process_bound.
  - intros [= <- <-]; cbn; auto.
  - intros [= <- <-]; cbn; auto.
  - destruct (process fx done _) as [p2 o2] eqn:E. intros [= <- <-] H.
    apply (process_bound _ _ _ _ _ E). exact H.
Qed.

Lemma step_stopping_mono fx p e p' o :
  step fx p e = (p', o) ->
  (p_stopping p = true -> p_stopping p' = true) /\ (p_closed p = true -> p_closed p' = true).
Proof.
  destruct e as [c|done| | |done]; cbn [step].
  - destruct (p_closed p || (p_stopping p && c_submit c)); intros [= <- <-]; cbn; auto.
  - intros E. destruct (process_spec _ _ _ _ _ E) as (q' & r' & cbs & dr & _ & -> & _). cbn. auto.
  - intros [= <- <-]; cbn; auto.
  - intros [= <- <-]; cbn; auto.
  - destruct (process fx done _) as [p2 o2] eqn:E. intros [= <- <-].
    destruct (process_spec _ _ _ _ _ E) as (q' & r' & cbs & dr & _ & -> & _). cbn. auto.
Qed.

(* a command enters the running list only from the queue, only through
   process(), never a jobs-submit once stopping *)
Lemma step_launched fx p e p' o :
  step fx p e = (p', o) ->
  forall c, In c (p_running p') -> In c (p_running p) \/
    (In c (p_queue p) /\ (exists done, e = EProcess done) /\ c_bad c = false
     /\ (p_stopping p = true -> c_submit c = false)).
Proof.
  destruct e as [c0|done| | |done]; cbn [step].
  - destruct (p_closed p || (p_stopping p && c_submit c0)); intros [= <- <-]; cbn; auto.
  - intros E c Hc. destruct (process_spec _ _ _ _ _ E) as (q' & r' & cbs & dr & El & -> & _).
    cbn in Hc. destruct (launch_new _ _ _ _ _ _ _ _ _ El c Hc) as [H|(H1 & H2 & H3)].
    + left. apply filter_In in H. tauto.
    + right. repeat split; eauto.
  - intros [= <- <-]; cbn; auto.
  - intros [= <- <-]; cbn; auto.
  - destruct (process fx done _) as [p2 o2] eqn:E. intros [= <- <-] c Hc.
    destruct (process_spec _ _ _ _ _ E) as (q' & r' & cbs & dr & El & -> & _).
    cbn in Hc, El. injection El as <- <- <- <-. left. apply filter_In in Hc. tauto.
Qed.

(* where commands are dropped (the code as it is, fx = false) *)
Lemma step_drop_reason p e p' o :
  step false p e = (p', o) ->
  forall i, In i (o_dropped o) ->
    (exists done, e = ETerminate done /\ In i (ids (p_queue p)))
    \/ (exists done, e = EProcess done /\ p_stopping p = true /\
        exists c, In c (p_queue p) /\ c_id c = i /\ c_submit c = true).
Proof.
  destruct e as [c0|done| | |done]; cbn [step].
  - destruct (p_closed p || (p_stopping p && c_submit c0)); intros [= <- <-] i [].
  - intros E i Hi. destruct (process_spec _ _ _ _ _ E) as (q' & r' & cbs & dr & El & -> & ->).
    cbn in Hi. right. exists done. destruct (launch_drop_reason _ _ _ _ _ _ _ _ _ El i Hi) as [H1 H2]. auto.
  - intros [= <- <-] i [].
  - intros [= <- <-] i [].
  - destruct (process false done _) as [p2 o2] eqn:E. intros [= <- <-] i Hi.
    destruct (process_spec _ _ _ _ _ E) as (q' & r' & cbs & dr & El & -> & ->).
    cbn in El. injection El as <- <- <- <-. cbn in Hi. rewrite app_nil_r in Hi.
    left. exists done. auto.
Qed.

Lemma step_fixed_no_drop p e p' o : step true p e = (p', o) -> o_dropped o = [].
Proof.
  destruct e as [c0|done| | |done]; cbn [step].
  - destruct (p_closed p || (p_stopping p && c_submit c0)); intros [= <- <-]; reflexivity.
  - intros E. destruct (process_spec _ _ _ _ _ E) as (q' & r' & cbs & dr & El & -> & ->).
    cbn. eapply launch_fixed_no_drop; eauto.
  - intros [= <- <-]; reflexivity.
  - intros [= <- <-]; reflexivity.
  - destruct (process true done _) as [p2 o2] eqn:E. intros [= <- <-]. cbn.
    destruct (process_spec _ _ _ _ _ E) as (q' & r' & cbs & dr & El & -> & ->).
    cbn. eapply launch_fixed_no_drop; eauto.
Qed.

(* ================================================================== *)
(* histories                                                           *)
Definition puts_of (es : list event) : list nat := flat_map put_ids es.
Definition callbacks_of (os : list outcome) : list nat := flat_map cb_ids os.
Definition dropped_of (os : list outcome) : list nat := flat_map o_dropped os.

Lemma run_count fx i : forall es p p' os,
  run fx p es = (p', os) ->
  occ i (ids (p_queue p)) + occ i (ids (p_running p)) + occ i (puts_of es)
  = occ i (ids (p_queue p')) + occ i (ids (p_running p')) + occ i (callbacks_of os) + occ i (dropped_of os).
Proof.
  induction es as [|e r IH]; intros p p' os; cbn [run].
  - intros [= <- <-]. cbn. rewrite ?occ_nil. lia.
  - destruct (step fx p e) as [p1 o] eqn:Es. destruct (run fx p1 r) as [p2 os2] eqn:Er.
    intros [= <- <-]. specialize (IH _ _ _ Er). pose proof (step_count _ _ _ _ _ i Es).
    unfold puts_of, callbacks_of, dropped_of in *. cbn [flat_map]. rewrite !occ_app. lia.
Qed.

Lemma run_bound fx : forall es p p' os,
  run fx p es = (p', os) -> length (p_running p) <= p_size p ->
  length (p_running p') <= p_size p' /\ p_size p' = p_size p.
Proof.
  induction es as [|e r IH]; intros p p' os; cbn [run].
  - intros [= <- <-]. auto.
  - destruct (step fx p e) as [p1 o] eqn:Es. destruct (run fx p1 r) as [p2 os2] eqn:Er.
    intros [= <- <-] H. destruct (step_bound _ _ _ _ _ Es H) as [H1 H2].
    destruct (IH _ _ _ Er H1) as [H3 H4]. split; [exact H3|congruence].
Qed.

Lemma run_fixed_no_drop : forall es p p' os, run true p es = (p', os) -> dropped_of os = [].
Proof.
  induction es as [|e r IH]; intros p p' os; cbn [run].
  - intros [= <- <-]. reflexivity.
  - destruct (step true p e) as [p1 o] eqn:Es. destruct (run true p1 r) as [p2 os2] eqn:Er.
    intros [= <- <-]. unfold dropped_of in *. cbn [flat_map].
    rewrite (step_fixed_no_drop _ _ _ _ Es). cbn. eapply IH; eauto.
Qed.

Lemma NoDup_occ_le l : NoDup l -> forall i, occ i l <= 1.
Proof. intros H i. now apply NoDup_count_occ. Qed.

Lemma occ_le_NoDup l : (forall i, occ i l <= 1) -> NoDup l.
Proof. intros H. apply (NoDup_count_occ Nat.eq_dec). exact H. Qed.

(* at most one callback, and nobody is both called back and dropped *)
Lemma run_at_most_once fx size es p os :
  run fx (new_pool size) es = (p, os) -> NoDup (puts_of es) ->
  NoDup (ids (p_queue p) ++ ids (p_running p) ++ callbacks_of os ++ dropped_of os).
Proof.
  intros E Hnd. apply occ_le_NoDup. intros i. rewrite !occ_app.
  pose proof (run_count _ i _ _ _ _ E) as H. cbn [new_pool p_queue p_running map] in H.
  rewrite ?occ_nil in H. pose proof (NoDup_occ_le _ Hnd i). lia.
Qed.

(* exactly one callback for every command — unless it was dropped *)
Lemma run_exactly_once_or_dropped fx size es p os :
  run fx (new_pool size) es = (p, os) -> NoDup (puts_of es) ->
  p_queue p = [] -> p_running p = [] ->
  forall i, In i (puts_of es) ->
    (occ i (callbacks_of os) = 1 /\ ~ In i (dropped_of os))
    \/ (occ i (callbacks_of os) = 0 /\ In i (dropped_of os)).
Proof.
  intros E Hnd Hq Hr i Hi.
  pose proof (run_count _ i _ _ _ _ E) as H. cbn [new_pool p_queue p_running map] in H.
  rewrite Hq, Hr in H. cbn [map] in H. rewrite ?occ_nil in H.
  pose proof (NoDup_occ_le _ Hnd i) as H1. apply occ_In in Hi.
  destruct (occ i (callbacks_of os)) as [|[|n]] eqn:Ec.
  - right. split; [reflexivity|]. apply occ_In. lia.
  - left. split; [reflexivity|]. intros Hd. apply occ_In in Hd. lia.
  - lia.
Qed.
