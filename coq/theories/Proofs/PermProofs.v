(* Proofs/PermProofs.v — lemmas for C44 over Model/Perm.v. *)
From Coq Require Import List ZArith Bool Lia.
From Cylc Require Import Base.Util Gen.PermConsts Model.Perm.
Import ListNotations.
Open Scope Z_scope.

(* ---- bitwise facts ---- *)

(* a file created under a umask that denies all group/other bits has none,
   whatever mode the creating call asked for *)
Lemma open_masked : forall u req,
  Z.land u go_bits = go_bits -> Z.land (mode_after_open u req) go_bits = 0.
Proof.
  intros u req H. unfold mode_after_open. apply Z.bits_inj'. intros n Hn.
  rewrite !Z.land_spec, Z.lnot_spec, Z.bits_0 by lia.
  assert (E : Z.testbit (Z.land u go_bits) n = Z.testbit go_bits n) by (rewrite H; reflexivity).
  rewrite Z.land_spec in E.
  destruct (Z.testbit go_bits n), (Z.testbit u n), (Z.testbit req n); cbn in *; congruence.
Qed.

Lemma key_umask_covers_go : Z.land KEY_UMASK go_bits = go_bits.
Proof. reflexivity. Qed.

Lemma perm_private_owner_only : Z.land PERM_PRIVATE go_bits = 0.
Proof. reflexivity. Qed.

Lemma mkstemp_owner_only : Z.land 384 go_bits = 0.
Proof. reflexivity. Qed.

Lemma key_open_private : forall req, Z.land (mode_after_open KEY_UMASK req) go_bits = 0.
Proof. intros req. apply open_masked. exact key_umask_covers_go. Qed.

(* meaning of [owner_only]: each of the six group/other rwx bits is clear *)
Lemma owner_only_bits : forall m,
  Z.land m go_bits = 0 <-> (forall k, 0 <= k < 6 -> Z.testbit m k = false).
Proof.
  intros m. split.
  - intros H k Hk.
    assert (E : Z.testbit (Z.land m go_bits) k = false) by (rewrite H; apply Z.bits_0).
    rewrite Z.land_spec in E.
    assert (G : Z.testbit go_bits k = true).
    { assert (C : k = 0 \/ k = 1 \/ k = 2 \/ k = 3 \/ k = 4 \/ k = 5) by lia.
      destruct C as [->|[->|[->|[->|[->| ->]]]]]; reflexivity. }
    rewrite G, andb_true_r in E. exact E.
  - intros H. apply Z.bits_inj'. intros n Hn. rewrite Z.land_spec, Z.bits_0.
    destruct (Z_lt_dec n 6) as [L|L].
    + rewrite H by lia. reflexivity.
    + replace (Z.testbit go_bits n) with false; [apply andb_false_r|].
      symmetry. change go_bits with (Z.ones 6). apply Z.ones_spec_high. lia.
Qed.

(* ---- the start-up sequences ---- *)

(* the initial state is a record of seven optional modes; the sequences only
   ever inspect DbPri and DbPub before overwriting them: split on whether
   those two exist, then everything computes *)
Ltac crunch := cbv -[mode_after_open Z.land go_bits].

Ltac finish :=
  eexists; split; [reflexivity|];
  first [ exact perm_private_owner_only | apply key_open_private | exact mkstemp_owner_only ].

(* Keys: whatever was there before and whatever the umask, both private keys
   exist afterwards and carry no group/other bit. *)
Lemma keys_private : forall s0 req_py f,
  f = SrvSec \/ f = CliSec ->
  exists m, modes (run (keys_seq req_py) s0) f = Some m /\ Z.land m go_bits = 0.
Proof.
  intros [[a1 a2 a3 a4 a5 a6 a7] u0 su0 sm0] req_py f [-> | ->]; crunch; finish.
Qed.

(* Private DB: fresh start or restart, whatever mode it had or sqlite asks for *)
Lemma db_private : forall s0 is_restart req_db req_py,
  exists m, modes (run (db_seq is_restart req_db req_py) s0) DbPri = Some m /\
            Z.land m go_bits = 0.
Proof.
  intros [[[a1|] [a2|] a3 a4 a5 a6 a7] u0 su0 sm0] [|] req_db req_py; crunch; finish.
Qed.

(* the DB sequence does not touch the keys, nor the umask *)
Lemma db_seq_frame : forall s0 is_restart req_db req_py f,
  f = SrvSec \/ f = CliSec ->
  modes (run (db_seq is_restart req_db req_py) s0) f = modes s0 f.
Proof.
  intros [[[a1|] [a2|] a3 a4 a5 a6 a7] u0 su0 sm0] [|] req_db req_py f [-> | ->]; crunch; reflexivity.
Qed.

Lemma run_app : forall a b s, run (a ++ b) s = run b (run a s).
Proof. intros a b s. unfold run. apply fold_left_app. Qed.

Theorem startup_private : forall s0 is_restart req_db req_py f,
  In f private_files ->
  exists m, modes (run (startup_seq is_restart req_db req_py) s0) f = Some m /\
            Z.land m go_bits = 0.
Proof.
  intros s0 is_restart req_db req_py f Hf. unfold startup_seq. rewrite run_app.
  destruct Hf as [<- | [<- | [<- | []]]].
  - apply db_private.
  - rewrite db_seq_frame by auto. apply keys_private. auto.
  - rewrite db_seq_frame by auto. apply keys_private. auto.
Qed.

Lemma keys_umask : forall s0 req_py, umask (run (keys_seq req_py) s0) = umask s0.
Proof. intros [[a1 a2 a3 a4 a5 a6 a7] u0 su0 sm0] req_py; crunch; reflexivity. Qed.

Lemma db_umask : forall s0 is_restart req_db req_py,
  umask (run (db_seq is_restart req_db req_py) s0) = umask s0.
Proof.
  intros [[[a1|] [a2|] a3 a4 a5 a6 a7] u0 su0 sm0] [|] req_db req_py; crunch; reflexivity.
Qed.

Theorem startup_umask_restored : forall s0 is_restart req_db req_py,
  umask (run (startup_seq is_restart req_db req_py) s0) = umask s0.
Proof.
  intros. unfold startup_seq. rewrite run_app, db_umask. apply keys_umask.
Qed.

(* ---- the finite statement of DESIGN.md: all 512 umasks, concrete creation modes ---- *)
Definition all_umasks : list Z := map Z.of_nat (seq 0 512).

Lemma all_umasks_spec : forall u, 0 <= u < 512 -> In u all_umasks.
Proof.
  intros u Hu. unfold all_umasks. rewrite <- (Z2Nat.id u) by lia.
  apply in_map. apply in_seq. lia.
Qed.

Definition fresh : list (option Z) := [].
Definition loose : list (option Z) :=   (* everything pre-exists world-accessible *)
  [Some 511; Some 511; Some 511; Some 511; Some 511; Some 511].

Definition private_after (r : bool) (init : list (option Z)) (u : Z) : bool :=
  forallb (file_private (run (startup_seq r sqlite_req python_req) (init_state u init)))
          private_files.

Lemma all_umasks_private_compute :
  forallb (fun u => private_after false fresh u && private_after true fresh u &&
                    private_after false loose u && private_after true loose u)
          all_umasks = true.
Proof. vm_compute. reflexivity. Qed.

Theorem all_umasks_private : forall u r f,
  0 <= u < 512 -> In f private_files ->
  file_private (run (startup_seq r sqlite_req python_req) (init_state u fresh)) f = true /\
  file_private (run (startup_seq r sqlite_req python_req) (init_state u loose)) f = true.
Proof.
  intros u r f Hu Hf.
  pose proof (proj1 (forallb_forall _ _) all_umasks_private_compute u (all_umasks_spec u Hu)) as H.
  cbv beta in H.
  apply andb_prop in H. destruct H as [H H4].
  apply andb_prop in H. destruct H as [H H3].
  apply andb_prop in H. destruct H as [H1 H2].
  pose proof (proj1 (forallb_forall _ _) H1 f Hf) as G1.
  pose proof (proj1 (forallb_forall _ _) H2 f Hf) as G2.
  pose proof (proj1 (forallb_forall _ _) H3 f Hf) as G3.
  pose proof (proj1 (forallb_forall _ _) H4 f Hf) as G4.
  destruct r; split; assumption.
Qed.
