(* Proofs/XtrigProofs.v — lemmas about Model/Xtrig.v (C33) *)
From Coq Require Import List Bool ZArith Lia.
From Cylc Require Import Base.Util Model.Xtrig.
Import ListNotations.
Open Scope Z_scope.

Lemma smem_In s l : smem s l = true <-> In s l.
Proof. unfold smem. apply mem_In. intros a b. apply Nat.eqb_eq. Qed.
Lemma smem_false s l : smem s l = false <-> ~ In s l.
Proof. rewrite <- smem_In. destruct (smem s l); split; congruence. Qed.

Lemma NoDup_snoc {A} (x : A) l : NoDup l -> ~ In x l -> NoDup (l ++ [x]).
Proof.
  induction 1 as [|y l Hy Hnd IH]; cbn; intros Hx.
  - constructor; [tauto|constructor].
  - constructor; [rewrite in_app_iff; cbn; intuition|apply IH; tauto].
Qed.

Lemma remove_first_In s x l : In x (remove_first s l) -> In x l.
Proof.
  induction l as [|y r IH]; cbn; [tauto|]. destruct (Nat.eqb y s); cbn; [tauto|]. intuition.
Qed.

Lemma remove_first_NoDup s l : NoDup l -> NoDup (remove_first s l).
Proof.
  induction 1 as [|y l Hy Hnd IH]; cbn; [constructor|].
  destruct (Nat.eqb y s); [exact Hnd|]. constructor; [|exact IH].
  intros H. apply Hy. eapply remove_first_In; eauto.
Qed.

Lemma assoc_set_eq s v l : assoc Nat.eqb s (set_tnext s v l) = Some v.
Proof.
  induction l as [|[k w] r IH]; cbn; [now rewrite Nat.eqb_refl|].
  destruct (Nat.eqb s k) eqn:E; cbn; rewrite E; [reflexivity|exact IH].
Qed.

Lemma assoc_set_neq s s' v l : s <> s' -> assoc Nat.eqb s (set_tnext s' v l) = assoc Nat.eqb s l.
Proof.
  intros Hne. induction l as [|[k w] r IH]; cbn.
  - destruct (Nat.eqb_spec s s'); [contradiction|reflexivity].
  - destruct (Nat.eqb_spec s' k) as [E|Hk]; cbn.
    + subst k. destruct (Nat.eqb_spec s s'); [contradiction|reflexivity].
    + destruct (Nat.eqb s k); [reflexivity|exact IH].
Qed.

Lemma assoc_filter_key (g : sig -> bool) s (l : list (sig * Z)) :
  assoc Nat.eqb s (filter (fun kv => g (fst kv)) l) = if g s then assoc Nat.eqb s l else None.
Proof.
  induction l as [|[k w] r IH]; cbn; [destruct (g s); reflexivity|].
  destruct (g k) eqn:Ek; cbn.
  - destruct (Nat.eqb_spec s k) as [->|Hne]; [now rewrite Ek|exact IH].
  - destruct (Nat.eqb_spec s k) as [->|Hne]; [rewrite Ek in *; exact IH|exact IH].
Qed.

(* ================================================================== *)
(* the loop of call_xtriggers_async, one iteration                     *)
(* shape of what an iteration can do *)
Inductive entry_effect (now : Z) (c : cstate) (e : entry) (c' : cstate) : Prop :=
| eff_none : c' = c -> entry_effect now c e c'
| eff_mark : In (e_sig e) (c_sat c) ->
    c_tnext c' = c_tnext c -> c_sat c' = c_sat c -> c_active c' = c_active c ->
    c_entries c' = mark (e_label e) (c_entries c) -> c_events c' = c_events c ->
    entry_effect now c e c'
| eff_clock : ~ In (e_sig e) (c_sat c) -> e_clock e <> None ->
    c_tnext c' = c_tnext c -> c_sat c' = c_sat c ++ [e_sig e] -> c_active c' = c_active c ->
    c_entries c' = mark (e_label e) (c_entries c) -> c_events c' = c_events c ++ [EvSucceed (e_sig e)] ->
    entry_effect now c e c'
| eff_submit : ~ In (e_sig e) (c_sat c) -> ~ In (e_sig e) (c_active c) -> e_clock e = None ->
    (forall t, assoc Nat.eqb (e_sig e) (c_tnext c) = Some t -> t <= now) ->
    c_tnext c' = set_tnext (e_sig e) (now + e_intvl e) (c_tnext c) -> c_sat c' = c_sat c ->
    c_active c' = c_active c ++ [e_sig e] -> c_entries c' = c_entries c ->
    c_events c' = c_events c ++ [EvSubmit (e_sig e) now (e_intvl e)] ->
    entry_effect now c e c'.

Lemma call_entry_effect now c e : entry_effect now c e (call_entry now c e).
Proof.
  unfold call_entry. destruct (e_clock e) as [trig|] eqn:Ec.
  - destruct (smem (e_sig e) (c_sat c)) eqn:Es.
    + apply eff_mark; auto. now apply smem_In.
    + destruct (Z.ltb trig now).
      * apply eff_clock; auto; [now apply smem_false|congruence].
      * now apply eff_none.
  - destruct (smem (e_sig e) (c_sat c)) eqn:Es.
    + apply eff_mark; auto. now apply smem_In.
    + destruct (smem (e_sig e) (c_active c)) eqn:Ea; [now apply eff_none|].
      destruct (assoc Nat.eqb (e_sig e) (c_tnext c)) as [t|] eqn:Et.
      * destruct (Z.ltb_spec now t); [now apply eff_none|].
        apply eff_submit; auto; [now apply smem_false|now apply smem_false|].
        intros t' E. rewrite Et in E. inversion E. subst. lia.
      * apply eff_submit; auto; [now apply smem_false|now apply smem_false|].
        intros t' E. rewrite Et in E. discriminate.
Qed.

(* a loop invariant principle *)
Lemma fold_call_inv now (P : cstate -> Prop) :
  (forall c e c', P c -> entry_effect now c e c' -> P c') ->
  forall es c, P c -> P (fold_left (call_entry now) es c).
Proof.
  intros Hstep. induction es as [|e r IH]; intros c Hc; cbn [fold_left]; [exact Hc|].
  apply IH. eapply Hstep; [exact Hc|apply call_entry_effect].
Qed.

(* ================================================================== *)
(* 1. at most one call in progress                                     *)
Lemma call_active_NoDup now es c :
  NoDup (c_active c) -> NoDup (c_active (fold_left (call_entry now) es c)).
Proof.
  apply (fold_call_inv now (fun c => NoDup (c_active c))).
  intros c0 e c' H Heff. destruct Heff as [->|? ? ? Ha|? ? ? ? Ha|? ? ? ? ? ? Ha]; auto; rewrite Ha; auto.
  now apply NoDup_snoc.
Qed.

Lemma xstep_active_NoDup st o st' evs :
  xstep st o = (st', evs) -> NoDup (s_active st) -> NoDup (s_active st').
Proof.
  destruct o as [tid now|s ok|tids]; cbn [xstep].
  - destruct (find_task tid (s_tasks st)) as [t|]; intros [= <- <-] H; [|exact H].
    cbn. now apply call_active_NoDup.
  - destruct (smem s (s_active st)); [|intros [= <- <-]; auto].
    destruct ok; intros [= <- <-] H; cbn; now apply remove_first_NoDup.
  - intros [= <- <-] H. exact H.
Qed.

(* a signature is submitted only if it is not active (and not succeeded) at that moment *)
Definition submit_guard (active0 sat0 : list sig) (evs : list xevent) : Prop :=
  forall s now iv, In (EvSubmit s now iv) evs -> ~ In s active0 /\ ~ In s sat0.

Lemma call_submit_guard now es c :
  (forall s n iv, In (EvSubmit s n iv) (c_events c) -> False) ->
  let c' := fold_left (call_entry now) es c in
  forall s n iv, In (EvSubmit s n iv) (c_events c') -> ~ In s (c_active c) /\ ~ In s (c_sat c).
Proof.
  intros H0.
  apply (fold_call_inv now (fun c' =>
     (forall x, In x (c_active c) -> In x (c_active c')) /\
     (forall x, In x (c_sat c) -> In x (c_sat c')) /\
     forall s n iv, In (EvSubmit s n iv) (c_events c') -> ~ In s (c_active c) /\ ~ In s (c_sat c))).
  - intros c0 e c' (Ha & Hs & He) Heff.
    destruct Heff as [->|? Ht Hs' Ha' ? Hev|? ? Ht Hs' Ha' ? Hev|Hns Hna ? ? Ht Hs' Ha' ? Hev]; auto.
    + rewrite Hs', Ha', Hev. auto.
    + rewrite Hs', Ha', Hev. split; [|split].
      * auto.
      * intros x Hx. apply in_app_iff. auto.
      * intros s n iv Hin. apply in_app_iff in Hin. destruct Hin as [Hin|[Hin|[]]]; [eauto|discriminate].
    + rewrite Hs', Ha', Hev. split; [|split].
      * intros x Hx. apply in_app_iff. auto.
      * auto.
      * intros s n iv Hin. apply in_app_iff in Hin. destruct Hin as [Hin|[Hin|[]]]; [eauto|].
        injection Hin as <- <- <-. split; intros Hx; [apply Hna|apply Hns]; auto.
  - split; [|split]; auto. intros s n iv Hin. exfalso. eauto.
Qed.

Lemma xstep_submit_guard st o st' evs :
  xstep st o = (st', evs) -> submit_guard (s_active st) (s_sat st) evs.
Proof.
  unfold submit_guard. destruct o as [tid now|s ok|tids]; cbn [xstep].
  - destruct (find_task tid (s_tasks st)) as [t|]; intros [= <- <-]; [|intros ? ? ? HF; inversion HF].
    intros s n iv Hin.
    apply (call_submit_guard now (unsat (x_entries t))
             {| c_tnext := s_tnext st; c_sat := s_sat st; c_active := s_active st;
                c_entries := x_entries t; c_events := [] |}) in Hin; [exact Hin|].
    cbn. intros ? ? ? HF. inversion HF.
  - destruct (smem s (s_active st)); [destruct ok|]; intros [= <- <-] s0 n iv H; cbn in H; intuition discriminate.
  - intros [= <- <-] s n iv Hin. apply in_map_iff in Hin. destruct Hin as [x [H _]]. discriminate.
Qed.

(* ================================================================== *)
(* 2. the interval                                                     *)
(* ghost: the earliest time the signature may be submitted again, as far as the
   trace of events tells: set by a submission, cleared by a housekeeping-forget *)
Definition upd_expect (s : sig) (acc : option Z) (ev : xevent) : option Z :=
  match ev with
  | EvSubmit s' now iv => if Nat.eqb s' s then Some (now + iv) else acc
  | EvForget s' => if Nat.eqb s' s then None else acc
  | _ => acc
  end.
Definition expect (s : sig) (acc : option Z) (evs : list xevent) : option Z :=
  fold_left (upd_expect s) evs acc.

Fixpoint intervals_ok (s : sig) (acc : option Z) (evs : list xevent) : Prop :=
  match evs with
  | [] => True
  | ev :: r =>
      match ev with
      | EvSubmit s' now _ => s' = s -> forall t, acc = Some t -> t <= now
      | _ => True
      end /\ intervals_ok s (upd_expect s acc ev) r
  end.

Lemma intervals_ok_app s : forall e1 acc e2,
  intervals_ok s acc (e1 ++ e2) <-> intervals_ok s acc e1 /\ intervals_ok s (expect s acc e1) e2.
Proof.
  induction e1 as [|ev r IH]; intros acc e2; cbn [app intervals_ok expect fold_left]; [tauto|].
  rewrite IH. unfold expect. tauto.
Qed.

Lemma expect_app s acc e1 e2 : expect s acc (e1 ++ e2) = expect s (expect s acc e1) e2.
Proof. unfold expect. apply fold_left_app. Qed.

Definition tnext_tracks (s : sig) (x : option Z) (tnext : list (sig * Z)) : Prop :=
  forall t, x = Some t -> assoc Nat.eqb s tnext = Some t.

Lemma call_interval s acc now es c :
  c_events c = [] -> tnext_tracks s acc (c_tnext c) ->
  let c' := fold_left (call_entry now) es c in
  intervals_ok s acc (c_events c') /\ tnext_tracks s (expect s acc (c_events c')) (c_tnext c').
Proof.
  intros He Ht.
  apply (fold_call_inv now (fun c' =>
     intervals_ok s acc (c_events c') /\ tnext_tracks s (expect s acc (c_events c')) (c_tnext c'))).
  - intros c0 e c' [Hok Htr] Heff.
    destruct Heff as [->|? Htn ? ? ? Hev|? ? Htn ? ? ? Hev|? ? ? Hsoon Htn ? ? ? Hev]; auto.
    + rewrite Htn, Hev. auto.
    + rewrite Htn, Hev. split.
      * apply intervals_ok_app. split; [exact Hok|]. cbn. auto.
      * rewrite expect_app. cbn. exact Htr.
    + rewrite Htn, Hev. split.
      * apply intervals_ok_app. split; [exact Hok|]. cbn. split; [|exact I].
        intros <- t Hx. apply Hsoon. apply Htr. exact Hx.
      * rewrite expect_app. cbn [expect fold_left upd_expect].
        destruct (Nat.eqb_spec (e_sig e) s) as [->|Hne].
        -- intros t [= <-]. apply assoc_set_eq.
        -- intros t Hx. rewrite assoc_set_neq by congruence. apply Htr. exact Hx.
  - rewrite He. cbn. split; [exact I|exact Ht].
Qed.

Lemma expect_forgets s acc gone :
  expect s acc (map EvForget gone) = if smem s gone then None else acc.
Proof.
  revert acc. induction gone as [|g r IH]; intros acc; cbn; [reflexivity|].
  unfold expect in *. cbn [map fold_left upd_expect]. rewrite IH.
  unfold smem. cbn [mem]. rewrite (Nat.eqb_sym s g).
  destruct (Nat.eqb g s); cbn; [destruct (mem Nat.eqb s r); reflexivity|reflexivity].
Qed.

Lemma intervals_ok_forgets s acc gone : intervals_ok s acc (map EvForget gone).
Proof. revert acc. induction gone as [|g r IH]; intros acc; cbn; auto. Qed.

Lemma xstep_interval s acc st o st' evs :
  xstep st o = (st', evs) -> tnext_tracks s acc (s_tnext st) ->
  intervals_ok s acc evs /\ tnext_tracks s (expect s acc evs) (s_tnext st').
Proof.
  destruct o as [tid now|s0 ok|tids]; cbn [xstep].
  - destruct (find_task tid (s_tasks st)) as [t|]; intros [= <- <-] H; [|cbn; auto].
    cbn [s_tnext]. apply call_interval; auto.
  - destruct (smem s0 (s_active st)); [destruct ok|]; intros [= <- <-] H; cbn; auto.
  - intros [= <- <-] H. split; [apply intervals_ok_forgets|].
    rewrite expect_forgets. cbn [s_tnext].
    set (need := needed_sigs tids (s_tasks st)).
    set (gone := filter (fun s1 => negb (smem s1 need)) (s_sat st)).
    intros t Hx. rewrite (assoc_filter_key (fun k => negb (smem k gone))).
    destruct (smem s gone); [discriminate|]. cbn. apply H. exact Hx.
Qed.

Lemma xrun_interval s : forall ops acc st st' evs,
  xrun st ops = (st', evs) -> tnext_tracks s acc (s_tnext st) ->
  intervals_ok s acc evs /\ tnext_tracks s (expect s acc evs) (s_tnext st').
Proof.
  induction ops as [|o r IH]; intros acc st st' evs; cbn [xrun].
  - intros [= <- <-] H. cbn. auto.
  - destruct (xstep st o) as [st1 ev1] eqn:E1. destruct (xrun st1 r) as [st2 ev2] eqn:E2.
    intros [= <- <-] H. destruct (xstep_interval s acc _ _ _ _ E1 H) as [H1 H2].
    destruct (IH _ _ _ _ E2 H2) as [H3 H4]. split.
    + apply intervals_ok_app. auto.
    + rewrite expect_app. exact H4.
Qed.

(* ================================================================== *)
(* 3. no call after success while still needed                         *)
Definition upd_succ (s : sig) (acc : bool) (ev : xevent) : bool :=
  match ev with
  | EvSucceed s' => if Nat.eqb s' s then true else acc
  | EvForget s' => if Nat.eqb s' s then false else acc
  | _ => acc
  end.
Definition succ_state (s : sig) (acc : bool) (evs : list xevent) : bool := fold_left (upd_succ s) evs acc.

Fixpoint no_resubmit_ok (s : sig) (acc : bool) (evs : list xevent) : Prop :=
  match evs with
  | [] => True
  | ev :: r =>
      match ev with
      | EvSubmit s' _ _ => s' = s -> acc = false
      | _ => True
      end /\ no_resubmit_ok s (upd_succ s acc ev) r
  end.

Lemma no_resubmit_ok_app s : forall e1 acc e2,
  no_resubmit_ok s acc (e1 ++ e2) <-> no_resubmit_ok s acc e1 /\ no_resubmit_ok s (succ_state s acc e1) e2.
Proof.
  induction e1 as [|ev r IH]; intros acc e2; cbn [app no_resubmit_ok succ_state fold_left]; [tauto|].
  rewrite IH. unfold succ_state. tauto.
Qed.

Lemma succ_state_app s acc e1 e2 : succ_state s acc (e1 ++ e2) = succ_state s (succ_state s acc e1) e2.
Proof. unfold succ_state. apply fold_left_app. Qed.

Definition sat_tracks (s : sig) (x : bool) (sat : list sig) : Prop := x = true -> In s sat.

Lemma call_no_resubmit s acc now es c :
  c_events c = [] -> sat_tracks s acc (c_sat c) ->
  let c' := fold_left (call_entry now) es c in
  no_resubmit_ok s acc (c_events c') /\ sat_tracks s (succ_state s acc (c_events c')) (c_sat c').
Proof.
  intros He Ht.
  apply (fold_call_inv now (fun c' =>
     no_resubmit_ok s acc (c_events c') /\ sat_tracks s (succ_state s acc (c_events c')) (c_sat c'))).
  - intros c0 e c' [Hok Htr] Heff.
    destruct Heff as [->|? ? Hs ? ? Hev|? ? ? Hs ? ? Hev|Hns ? ? ? ? Hs ? ? Hev]; auto.
    + rewrite Hs, Hev. auto.
    + rewrite Hs, Hev. split.
      * apply no_resubmit_ok_app. split; [exact Hok|]. cbn. auto.
      * rewrite succ_state_app. cbn [succ_state fold_left upd_succ]. intros Hx. apply in_app_iff.
        destruct (Nat.eqb_spec (e_sig e) s) as [->|Hne]; [right; now left|left; auto].
    + rewrite Hs, Hev. split.
      * apply no_resubmit_ok_app. split; [exact Hok|]. cbn. split; [|exact I].
        intros <-. destruct (succ_state (e_sig e) acc (c_events c0)) eqn:Ex; [|reflexivity].
        exfalso. apply Hns. apply Htr. reflexivity.
      * rewrite succ_state_app. cbn. exact Htr.
  - rewrite He. cbn. split; [exact I|exact Ht].
Qed.

Lemma succ_state_forgets s acc gone :
  succ_state s acc (map EvForget gone) = if smem s gone then false else acc.
Proof.
  revert acc. induction gone as [|g r IH]; intros acc; cbn; [reflexivity|].
  unfold succ_state in *. cbn [map fold_left upd_succ]. rewrite IH.
  unfold smem. cbn [mem]. rewrite (Nat.eqb_sym s g).
  destruct (Nat.eqb g s); cbn; [destruct (mem Nat.eqb s r); reflexivity|reflexivity].
Qed.

Lemma no_resubmit_ok_forgets s acc gone : no_resubmit_ok s acc (map EvForget gone).
Proof. revert acc. induction gone as [|g r IH]; intros acc; cbn; auto. Qed.

Lemma xstep_no_resubmit s acc st o st' evs :
  xstep st o = (st', evs) -> sat_tracks s acc (s_sat st) ->
  no_resubmit_ok s acc evs /\ sat_tracks s (succ_state s acc evs) (s_sat st').
Proof.
  destruct o as [tid now|s0 ok|tids]; cbn [xstep].
  - destruct (find_task tid (s_tasks st)) as [t|]; intros [= <- <-] H; [|cbn; auto].
    cbn [s_sat]. apply call_no_resubmit; auto.
  - destruct (smem s0 (s_active st)); [destruct ok|]; intros [= <- <-] H; cbn; auto.
    split; [auto|]. unfold sat_tracks, succ_state. cbn.
    destruct (Nat.eqb_spec s0 s) as [->|Hne].
    + intros _. destruct (smem s (s_sat st)) eqn:E; [now apply smem_In|apply in_app_iff; right; now left].
    + intros Hx. destruct (smem s0 (s_sat st)); [auto|apply in_app_iff; left; auto].
  - intros [= <- <-] H. split; [apply no_resubmit_ok_forgets|].
    rewrite succ_state_forgets. cbn [s_sat].
    set (need := needed_sigs tids (s_tasks st)).
    intros Hx. destruct (smem s (filter (fun s1 => negb (smem s1 need)) (s_sat st))) eqn:Eg; [discriminate|].
    specialize (H Hx). apply filter_In. split; [exact H|].
    apply smem_false in Eg. destruct (smem s need) eqn:En; [reflexivity|].
    exfalso. apply Eg. apply filter_In. split; [exact H|]. now rewrite En.
Qed.

Lemma xrun_no_resubmit s : forall ops acc st st' evs,
  xrun st ops = (st', evs) -> sat_tracks s acc (s_sat st) ->
  no_resubmit_ok s acc evs /\ sat_tracks s (succ_state s acc evs) (s_sat st').
Proof.
  induction ops as [|o r IH]; intros acc st st' evs; cbn [xrun].
  - intros [= <- <-] H. cbn. auto.
  - destruct (xstep st o) as [st1 ev1] eqn:E1. destruct (xrun st1 r) as [st2 ev2] eqn:E2.
    intros [= <- <-] H. destruct (xstep_no_resubmit s acc _ _ _ _ E1 H) as [H1 H2].
    destruct (IH _ _ _ _ E2 H2) as [H3 H4]. split.
    + apply no_resubmit_ok_app. auto.
    + rewrite succ_state_app. exact H4.
Qed.

(* a signature is forgotten only when no task handed to housekeep still needs it *)
Lemma forget_only_unneeded st o st' evs s :
  xstep st o = (st', evs) -> In (EvForget s) evs ->
  exists tids, o = XHousekeep tids /\ In s (s_sat st) /\ ~ In s (needed_sigs tids (s_tasks st)).
Proof.
  destruct o as [tid now|s0 ok|tids]; cbn [xstep].
  - destruct (find_task tid (s_tasks st)) as [t|]; intros [= <- <-] Hin; [|destruct Hin].
    exfalso. revert Hin.
    apply (fold_call_inv now (fun c => ~ In (EvForget s) (c_events c))); [|cbn; tauto].
    intros c0 e c' H Heff.
    destruct Heff as [->|? ? ? ? ? Hev|? ? ? ? ? ? Hev|? ? ? ? ? ? ? ? Hev]; auto; rewrite Hev; auto;
      intros Hin; apply in_app_iff in Hin; destruct Hin as [Hin|[Hin|[]]]; auto; discriminate.
  - destruct (smem s0 (s_active st)); [destruct ok|]; intros [= <- <-] H; cbn in H; intuition discriminate.
  - intros [= <- <-] Hin. exists tids. split; [reflexivity|].
    apply in_map_iff in Hin. destruct Hin as [x [[= ->] Hx]]. apply filter_In in Hx.
    destruct Hx as [Hx Hn]. split; [exact Hx|]. apply negb_true_iff in Hn. now apply smem_false.
Qed.

(* ================================================================== *)
(* 4. dependents of a succeeded signature become satisfied              *)
Lemma In_mark_sat label e es :
  In e (mark label es) -> e_label e = label -> e_sat e = true.
Proof.
  unfold mark. intros Hin Hl. apply in_map_iff in Hin. destruct Hin as [e0 [<- _]].
  destruct (Nat.eqb_spec (e_label e0) label) as [E|E]; cbn in *; [reflexivity|contradiction].
Qed.

Lemma mark_keeps label es e :
  In e (mark label es) -> exists e0, In e0 es /\ e_label e = e_label e0 /\ (e_sat e0 = true -> e_sat e = true).
Proof.
  unfold mark. intros Hin. apply in_map_iff in Hin. destruct Hin as [e0 [<- H0]].
  exists e0. destruct (Nat.eqb (e_label e0) label); cbn; auto.
Qed.

Definition label_done (label : nat) (es : list entry) : Prop :=
  forall e, In e es -> e_label e = label -> e_sat e = true.

Lemma label_done_mark_same label es : label_done label (mark label es).
Proof. intros e Hin Hl. eapply In_mark_sat; eauto. Qed.

Lemma label_done_mark_other label l2 es : label_done label es -> label_done label (mark l2 es).
Proof.
  intros H e Hin Hl. destruct (mark_keeps _ _ _ Hin) as [e0 [H0 [Hl0 Hs]]].
  apply Hs. apply H; [exact H0|congruence].
Qed.

Lemma call_entry_sat now c e :
  In (e_sig e) (c_sat c) -> c_entries (call_entry now c e) = mark (e_label e) (c_entries c).
Proof.
  intros H. apply smem_In in H. unfold call_entry. rewrite H. destruct (e_clock e); reflexivity.
Qed.

Lemma call_keeps_done now label : forall es c,
  label_done label (c_entries c) -> label_done label (c_entries (fold_left (call_entry now) es c)).
Proof.
  induction es as [|e r IH]; intros c Hd; cbn [fold_left]; [exact Hd|].
  apply IH. destruct (call_entry_effect now c e) as [->|? ? ? ? He|? ? ? ? ? He|? ? ? ? ? ? ? He]; auto;
    rewrite He; auto; now apply label_done_mark_other.
Qed.

Lemma call_sat_mono now c e x : In x (c_sat c) -> In x (c_sat (call_entry now c e)).
Proof.
  intros Hx. destruct (call_entry_effect now c e) as [->|? ? Hs'|? ? ? Hs'|? ? ? ? ? Hs']; auto;
    rewrite Hs'; auto. apply in_app_iff. auto.
Qed.

Lemma call_dependents now : forall es c target,
  In target es -> In (e_sig target) (c_sat c) ->
  label_done (e_label target) (c_entries (fold_left (call_entry now) es c)).
Proof.
  induction es as [|e r IH]; intros c target Hin Hs; [destruct Hin|]. cbn [fold_left].
  destruct Hin as [->|Hin].
  - apply call_keeps_done. rewrite call_entry_sat by exact Hs. apply label_done_mark_same.
  - apply IH; [exact Hin|]. now apply call_sat_mono.
Qed.

(* call_xtriggers_async(task): every unsatisfied label of the task whose
   signature has succeeded is satisfied afterwards *)
Lemma xstep_call_dependents st tid now st' evs t e :
  xstep st (XCall tid now) = (st', evs) ->
  find_task tid (s_tasks st) = Some t -> In e (x_entries t) -> e_sat e = false ->
  In (e_sig e) (s_sat st) ->
  forall t', In t' (s_tasks st') -> x_id t' = tid -> label_done (e_label e) (x_entries t').
Proof.
  cbn [xstep]. intros E Hf He Hun Hs. rewrite Hf in E. injection E as <- _.
  intros t' Hin Hid. cbn [s_tasks] in Hin. unfold set_task in Hin. apply in_map_iff in Hin.
  destruct Hin as [t0 [<- H0]]. destruct (Nat.eqb_spec (x_id t0) tid) as [E|E]; [|contradiction].
  cbn [x_entries]. apply call_dependents; [|exact Hs].
  unfold unsat. apply filter_In. split; [exact He|]. now rewrite Hun.
Qed.

(* housekeep never forgets a succeeded signature that a task it was given still needs *)
Lemma xstep_housekeep_keeps st tids st' evs s :
  xstep st (XHousekeep tids) = (st', evs) ->
  In s (s_sat st) -> In s (needed_sigs tids (s_tasks st)) -> In s (s_sat st').
Proof.
  cbn [xstep]. intros [= <- _] Hs Hn. cbn [s_sat]. apply filter_In. split; [exact Hs|]. now apply smem_In.
Qed.

(* histories: at most one call in progress *)
Lemma xrun_active_NoDup : forall ops st st' evs,
  xrun st ops = (st', evs) -> NoDup (s_active st) -> NoDup (s_active st').
Proof.
  induction ops as [|o r IH]; intros st st' evs; cbn [xrun].
  - intros [= <- <-] H. exact H.
  - destruct (xstep st o) as [st1 ev1] eqn:E1. destruct (xrun st1 r) as [st2 ev2] eqn:E2.
    intros [= <- <-] H. eapply IH; [exact E2|]. eapply xstep_active_NoDup; eauto.
Qed.
