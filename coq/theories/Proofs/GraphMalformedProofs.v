(* Proofs/GraphMalformedProofs.v — C14: malformed graph text is never accepted
   by the model (it returns GErr = GraphParseError, or Unmod for inputs outside
   the modelled fragment; never Ok). *)
From Coq Require Import List Bool Arith String Lia.
From Cylc Require Import Base.Util Gen.FamTables Model.GraphBase Model.GraphExpr Model.FamTrig
  Model.GraphParse Model.GraphAst.
Import ListNotations.

(* a pair that _proc_dep_pair must reject *)
Definition bad_pair (p : pair) : bool :=
  let lt := match fst p with Some l => l | None => [] end in
  let right := snd p in
  existsb is_or right                                             (* OR on the right *)
  || existsb is_bang lt                                           (* suicide on the left *)
  || negb (Nat.eqb (count_tok is_lp lt) (count_tok is_rp lt))     (* unbalanced ( ) on the left *)
  || negb (Nat.eqb (count_tok is_lp right) (count_tok is_rp right))   (* ... on the right *)
  || existsb is_nil (split_on is_and right)                       (* empty node on the right *)
  || match fst p with                                             (* empty node in a plain AND list *)
     | Some l => negb (existsb is_or l || existsb is_lp l) && existsb is_nil (split_on is_and l)
     | None => false
     end.

Lemma proc_pair_bad fm eoc st p : bad_pair p = true -> proc_pair fm eoc st p = GErr.
Proof.
  unfold bad_pair, proc_pair. destruct p as [lft right]. cbn [fst snd].
  set (lt := match lft with Some l => l | None => [] end).
  destruct (existsb is_or right); [reflexivity|].
  destruct (existsb is_bang lt); [reflexivity|].
  destruct (Nat.eqb (count_tok is_lp lt) (count_tok is_rp lt)); [|reflexivity].
  destruct (Nat.eqb (count_tok is_lp right) (count_tok is_rp right)); [|reflexivity].
  destruct (existsb is_nil (split_on is_and right)); [reflexivity|]. cbn [negb orb].
  destruct lft as [l|]; [|discriminate]. subst lt.
  destruct (existsb is_or l || existsb is_lp l) eqn:E1; cbn [negb andb]; [discriminate|].
  intros E2.
  destruct (is_nil l) eqn:En.
  - destruct l; [|discriminate]. reflexivity.
  - cbn [orb]. rewrite <- orb_assoc in E1 || idtac.
    apply orb_false_iff in E1. destruct E1 as [Eo El]. rewrite Eo, El. cbn [orb]. now rewrite E2.
Qed.

Lemma fold_res_ok_in {A S} (f : S -> A -> res S) : forall l s s' x,
  fold_res f l s = Ok s' -> In x l -> exists s1 s2, f s1 x = Ok s2.
Proof.
  induction l as [|a r IH]; intros s s' x H Hin; [destruct Hin|].
  cbn [fold_res] in H. destruct (f s a) as [s1| |] eqn:E; cbn [bind] in H; try discriminate.
  destruct Hin as [<-|Hin]; [eauto|eapply IH; eauto].
Qed.

Theorem parse_lines_no_bad_pair fm full st :
  parse_lines fm full = Ok st ->
  forall p, In p (lines_pairs (dedup_first toks_eqb [] full)) -> bad_pair p = false.
Proof.
  unfold parse_lines. intros H p Hp.
  destruct (fold_res _ _ empty_state) as [st1| |] eqn:E; cbn [bind] in H; try discriminate.
  destruct (fold_res_ok_in _ _ _ _ p E Hp) as [s1 [s2 Hs]].
  destruct (bad_pair p) eqn:Eb; [|reflexivity]. rewrite (proc_pair_bad _ _ _ _ Eb) in Hs. discriminate.
Qed.

Lemma join_lines_dangling : forall nb first part,
  nb <> [] -> ends_cont (last nb []) = true -> join_lines first part nb = GErr.
Proof.
  induction nb as [|this rest IH]; [congruence|]. intros first part _ Hlast.
  cbn [join_lines]. destruct (first && starts_cont this); [reflexivity|].
  destruct rest as [|nxt rest'].
  - cbn [is_nil andb last] in *. now rewrite Hlast.
  - cbn [is_nil andb]. destruct (ends_cont this && starts_cont nxt); [reflexivity|].
    assert (Hr : forall f p, join_lines f p (nxt :: rest') = GErr)
      by (intros f p; apply IH; [discriminate|exact Hlast]).
    destruct ((ends_cont this || starts_cont nxt) && negb (ends_bad this || starts_bad nxt)).
    + apply Hr.
    + now rewrite Hr.
Qed.

(* everything an accepted text is guaranteed to be *)
Theorem parse_ok_wellformed fm text st :
  parse fm text = Ok st ->
  exists nb full,
    phys_lines text = Ok nb /\ join_lines true [] nb = Ok full
    /\ starts_cont (hd [] nb) = false                         (* no leading => & | *)
    /\ (nb <> [] -> ends_cont (last nb []) = false)           (* no dangling => & | *)
    /\ (forall l, In l full -> has_double is_and l = false /\ has_double is_or l = false)   (* no && || *)
    /\ (forall p, In p (lines_pairs (dedup_first toks_eqb [] full)) -> bad_pair p = false).
Proof.
  unfold parse. intros H.
  destruct (phys_lines text) as [nb| |] eqn:Ep; cbn [bind] in H; try discriminate.
  destruct (join_lines true [] nb) as [full| |] eqn:Ej; cbn [bind] in H; try discriminate.
  destruct (check_lines full) as [u| |] eqn:Ec; cbn [bind] in H; try discriminate.
  exists nb, full. split; [reflexivity|]. split; [exact Ej|]. split; [|split; [|split]].
  - destruct nb as [|this rest]; [reflexivity|]. cbn [hd]. cbn [join_lines] in Ej.
    destruct (starts_cont this); [discriminate|reflexivity].
  - intros Hne. destruct (ends_cont (last nb [])) eqn:E; [|reflexivity].
    rewrite (join_lines_dangling nb true [] Hne E) in Ej. discriminate.
  - intros l Hl. unfold check_lines in Ec.
    destruct (existsb (fun l => has_double is_and l || has_double is_or l) full) eqn:Ee; [discriminate|].
    assert (Hx : has_double is_and l || has_double is_or l = false).
    { apply not_true_is_false. intros Hx. assert (existsb (fun l => has_double is_and l || has_double is_or l) full = true)
        by (apply existsb_exists; eauto). congruence. }
    now apply orb_false_iff in Hx.
  - now apply (parse_lines_no_bad_pair fm full st).
Qed.
