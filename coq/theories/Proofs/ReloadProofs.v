(* Proofs/ReloadProofs.v — lemmas about Model/Reload.v (property C27). *)
From Coq Require Import List Bool NArith Lia.
From Cylc Require Import Base.Util Model.Reload.
Import ListNotations.

(* ---------------------------------------------------------------- equalities *)
Lemma tid_eqb_spec a b : tid_eqb a b = true <-> a = b.
Proof.
  destruct a as [a1 a2], b as [b1 b2]; unfold tid_eqb; cbn.
  rewrite andb_true_iff, !N.eqb_eq. split; [intros [-> ->]; reflexivity|intros E; inversion E; auto].
Qed.

Lemma key_eqb_spec a b : key_eqb a b = true <-> a = b.
Proof.
  destruct a as [[a1 a2] a3], b as [[b1 b2] b3]; unfold key_eqb; cbn.
  rewrite !andb_true_iff, !N.eqb_eq. split; [intros [[-> ->] ->]; reflexivity|intros E; inversion E; auto].
Qed.

Lemma key_eqb_refl k : key_eqb k k = true.
Proof. apply key_eqb_spec; reflexivity. Qed.

Lemma memN_In x l : mem N.eqb x l = true <-> In x l.
Proof. apply mem_In. intros; apply N.eqb_eq. Qed.

(* ---------------------------------------------------------------- assoc facts *)
Lemma assoc_In {B} k (l : list (key * B)) v : assoc key_eqb k l = Some v -> In (k, v) l.
Proof.
  induction l as [|[k' v'] r IH]; cbn; [discriminate|].
  destruct (key_eqb k k') eqn:E.
  - apply key_eqb_spec in E; subst. intros H; inversion H; auto.
  - auto.
Qed.

Lemma assoc_None {B} k (l : list (key * B)) : assoc key_eqb k l = None <-> ~ In k (map fst l).
Proof.
  induction l as [|[k' v'] r IH]; cbn; [tauto|].
  destruct (key_eqb k k') eqn:E.
  - apply key_eqb_spec in E; subst. split; [discriminate|]. intros H; exfalso; apply H; auto.
  - rewrite IH. split; [intros H [H1|H1]; [subst; rewrite key_eqb_refl in E; discriminate|auto]|tauto].
Qed.

Lemma assoc_some_of_in {B} k (l : list (key * B)) v : In (k, v) l -> exists v', assoc key_eqb k l = Some v'.
Proof.
  intros H. destruct (assoc key_eqb k l) eqn:E; [eauto|].
  apply assoc_None in E. exfalso; apply E. apply in_map_iff. exists (k, v); auto.
Qed.

(* a flat list of (key, value) in which a key has one value only *)
Definition functional {B} (l : list (key * B)) : Prop :=
  forall k v v', In (k, v) l -> In (k, v') l -> v = v'.

Lemma assoc_functional {B} k (l : list (key * B)) v :
  functional l -> In (k, v) l -> assoc key_eqb k l = Some v.
Proof.
  intros F H. destruct (assoc_some_of_in k l v H) as [v' E]. rewrite E.
  f_equal. apply (F k); [apply assoc_In; exact E|exact H].
Qed.

(* ---------------------------------------------------------------- the value a key gets *)
Lemma pre_reload_In p k v : In (k, v) (pre_reload p) <-> In (k, v) (concat (p_prereqs p)).
Proof. unfold pre_reload. rewrite <- in_rev. tauto. Qed.

(* a key that exists before the reload takes the value of one of its old occurrences (the last one) *)
Lemma new_value_old db p k v :
  In (k, v) (concat (p_prereqs p)) ->
  exists v', In (k, v') (concat (p_prereqs p)) /\ new_value db p k = v'.
Proof.
  intros H. apply pre_reload_In in H. destruct (assoc_some_of_in _ _ _ H) as [v' E].
  exists v'. split; [apply pre_reload_In; apply assoc_In; exact E|]. unfold new_value; rewrite E; reflexivity.
Qed.

Lemma functional_rev {B} (l : list (key * B)) : functional l -> functional (rev l).
Proof. intros F k v v' H1 H2. apply in_rev in H1, H2. eauto. Qed.

Lemma new_value_kept db p k v :
  functional (concat (p_prereqs p)) -> In (k, v) (concat (p_prereqs p)) -> new_value db p k = v.
Proof.
  intros F H. unfold new_value, pre_reload.
  rewrite (assoc_functional k _ v); [reflexivity|apply functional_rev; exact F|rewrite <- in_rev; exact H].
Qed.

Lemma new_value_new db p k :
  ~ In k (map fst (concat (p_prereqs p))) -> new_value db p k = check_output db k (p_flows p).
Proof.
  intros H. unfold new_value.
  assert (E : assoc key_eqb k (pre_reload p) = None).
  { apply assoc_None. intros C. apply H. apply in_map_iff in C. destruct C as [[k' v] [E1 E2]].
    cbn in E1; subst. apply pre_reload_In in E2. apply in_map_iff. exists (k, v); auto. }
  rewrite E; reflexivity.
Qed.

(* ---------------------------------------------------------------- check_task_output *)
Lemma intersects_spec a b : intersects a b = true <-> exists x, In x a /\ In x b.
Proof.
  unfold intersects. rewrite existsb_exists. split; intros [x [H1 H2]]; exists x; split; auto; apply memN_In; auto.
Qed.

(* "recorded": some task_outputs row of that task instance, for flow numbers overlapping the given ones, has the message *)
Definition recorded (db : dbrows) (k : key) (flows : list N) : Prop :=
  exists rows fl msgs, assoc tid_eqb (fst k) db = Some rows /\ In (fl, msgs) rows /\
                       (exists f, In f flows /\ In f fl) /\ In (snd k) msgs.

Lemma first_overlap_sound rows flows msg :
  first_overlap rows flows msg = true ->
  exists fl msgs, In (fl, msgs) rows /\ intersects flows fl = true /\ In msg msgs.
Proof.
  induction rows as [|[fl msgs] r IH]; cbn; [discriminate|].
  destruct (intersects flows fl) eqn:E.
  - intros H. exists fl, msgs. split; [auto|split; [exact E|apply memN_In; exact H]].
  - intros H. destruct (IH H) as [fl' [msgs' [H1 H2]]]. exists fl', msgs'. split; [auto|exact H2].
Qed.

Lemma check_output_sound db k flows : check_output db k flows = true -> recorded db k flows.
Proof.
  unfold check_output, recorded. destruct flows as [|f0 fr]; [discriminate|].
  destruct (assoc tid_eqb (fst k) db) as [rows|]; [|discriminate].
  intros H. apply first_overlap_sound in H. destruct H as [fl [msgs [H1 [H2 H3]]]].
  exists rows, fl, msgs. split; [reflexivity|split; [exact H1|split; [apply intersects_spec; exact H2|exact H3]]].
Qed.

(* at most one row of each task instance overlaps the given flow numbers *)
Definition one_overlap (db : dbrows) (flows : list N) : Prop :=
  forall i rows r1 r2, assoc tid_eqb i db = Some rows -> In r1 rows -> In r2 rows ->
    intersects flows (fst r1) = true -> intersects flows (fst r2) = true -> r1 = r2.

Lemma first_overlap_complete rows flows msg fl msgs :
  (forall r1 r2, In r1 rows -> In r2 rows -> intersects flows (fst r1) = true ->
                 intersects flows (fst r2) = true -> r1 = r2) ->
  In (fl, msgs) rows -> intersects flows fl = true -> In msg msgs ->
  first_overlap rows flows msg = true.
Proof.
  induction rows as [|[fl' msgs'] r IH]; cbn; [tauto|]. intros U H I M.
  destruct (intersects flows fl') eqn:E.
  - assert (Q : (fl', msgs') = (fl, msgs)).
    { apply U; cbn; auto. }
    inversion Q; subst. apply memN_In; exact M.
  - destruct H as [H|H]; [inversion H; subst; congruence|].
    apply IH; auto.
Qed.

Lemma check_output_complete db k flows :
  one_overlap db flows -> recorded db k flows -> check_output db k flows = true.
Proof.
  intros U [rows [fl [msgs [H1 [H2 [[f [F1 F2]] H4]]]]]]. unfold check_output.
  destruct flows as [|f0 fr]; [destruct F1|]. rewrite H1.
  apply (first_overlap_complete rows (f0 :: fr) (snd k) fl msgs).
  - intros r1 r2; apply (U (fst k) rows); auto.
  - exact H2.
  - apply intersects_spec. exists f; auto.
  - exact H4.
Qed.

Lemma check_output_no_flows db k : check_output db k [] = false.
Proof. reflexivity. Qed.

(* ---------------------------------------------------------------- one task *)
Definition survives (d : newdef) (p : proxy) : bool := negb (orphan d p && removable p).

(* what a surviving task becomes *)
Definition image (d : newdef) (db : dbrows) (p : proxy) : proxy :=
  if orphan d p then
    {| p_id := p_id p; p_status := p_status p; p_flows := p_flows p; p_submit := p_submit p;
       p_held := p_held p; p_queued := p_queued p; p_runahead := p_runahead p;
       p_manual := p_manual p; p_outputs := p_outputs p; p_prereqs := p_prereqs p; p_cut := true |}
  else reload_proxy db (defined d p) (newpre_of d p) p.

Lemma reload_one_spec d db p : reload_one d db p = if survives d p then [image d db p] else [].
Proof.
  unfold reload_one, survives, image. destruct (orphan d p); cbn; [|reflexivity].
  destruct (removable p); reflexivity.
Qed.

(* everything except the queued flag, the prerequisites and the children is kept *)
Definition same_core (p q : proxy) : Prop :=
  p_id q = p_id p /\ p_status q = p_status p /\ p_flows q = p_flows p /\ p_submit q = p_submit p /\
  p_held q = p_held p /\ p_runahead q = p_runahead p /\ p_manual q = p_manual p /\ p_outputs q = p_outputs p.

Lemma image_core d db p : same_core p (image d db p).
Proof. unfold image, same_core. destruct (orphan d p); cbn; repeat split; reflexivity. Qed.

Lemma image_id d db p : p_id (image d db p) = p_id p.
Proof. apply image_core. Qed.

(* ---------------------------------------------------------------- the pool *)
Lemma reload_pool_In d db pool q :
  In q (reload_pool d db pool) <-> exists p, In p pool /\ survives d p = true /\ q = image d db p.
Proof.
  unfold reload_pool. rewrite in_flat_map. split.
  - intros [p [H1 H2]]. rewrite reload_one_spec in H2. destruct (survives d p) eqn:E; [|destruct H2].
    destruct H2 as [H2|[]]. exists p; auto.
  - intros [p [H1 [H2 H3]]]. exists p. split; [exact H1|]. rewrite reload_one_spec, H2. left; auto.
Qed.

Lemma reload_pool_ids d db pool :
  map p_id (reload_pool d db pool) = map p_id (filter (survives d) pool).
Proof.
  unfold reload_pool. induction pool as [|p r IH]; cbn; [reflexivity|].
  rewrite map_app, IH, reload_one_spec. destruct (survives d p); cbn; [rewrite image_id|]; reflexivity.
Qed.

Lemma NoDup_map_filter {A B} (f : A -> B) (g : A -> bool) l : NoDup (map f l) -> NoDup (map f (filter g l)).
Proof.
  induction l as [|x r IH]; cbn; [auto|]. intros H; inversion H as [|? ? H1 H2]; subst.
  destruct (g x); cbn; [constructor|]; auto.
  intros C. apply H1. apply in_map_iff in C. destruct C as [y [E1 E2]]. apply filter_In in E2.
  apply in_map_iff. exists y; tauto.
Qed.

Lemma reload_pool_NoDup d db pool : NoDup (map p_id pool) -> NoDup (map p_id (reload_pool d db pool)).
Proof. intros H. rewrite reload_pool_ids. apply NoDup_map_filter; exact H. Qed.

(* the ids after the reload are a sub-sequence of the ids before, in the same order: filter *)
Lemma reload_pool_id_In d db pool i :
  In i (map p_id (reload_pool d db pool)) <-> exists p, In p pool /\ survives d p = true /\ p_id p = i.
Proof.
  rewrite reload_pool_ids, in_map_iff. split.
  - intros [p [E H]]. apply filter_In in H. exists p; tauto.
  - intros [p [H1 [H2 E]]]. exists p. split; [exact E|]. apply filter_In; auto.
Qed.

Lemma survivor_preserved d db pool p :
  In p pool -> survives d p = true ->
  exists q, In q (reload_pool d db pool) /\ same_core p q.
Proof.
  intros H S. exists (image d db p). split; [apply reload_pool_In; exists p; auto|apply image_core].
Qed.

Lemma after_has_origin d db pool q :
  In q (reload_pool d db pool) -> exists p, In p pool /\ survives d p = true /\ same_core p q.
Proof.
  intros H. apply reload_pool_In in H. destruct H as [p [H1 [H2 ->]]]. exists p. repeat split; auto; apply image_core.
Qed.

Lemma survives_spec d p : survives d p = false <-> orphan d p = true /\ removable p = true.
Proof. unfold survives. rewrite negb_false_iff, andb_true_iff. tauto. Qed.

Lemma dropped_spec d db pool p :
  NoDup (map p_id pool) -> In p pool ->
  (~ In (p_id p) (map p_id (reload_pool d db pool)) <-> orphan d p = true /\ removable p = true).
Proof.
  intros ND H. rewrite <- survives_spec. split.
  - intros C. destruct (survives d p) eqn:E; [|reflexivity]. exfalso; apply C.
    apply reload_pool_id_In. exists p; auto.
  - intros S C. apply reload_pool_id_In in C. destruct C as [p' [H1 [H2 E]]].
    assert (p' = p); [|subst; congruence].
    clear - ND H H1 E. induction pool as [|x r IH]; [destruct H|]. cbn in ND. inversion ND as [|? ? N1 N2]; subst.
    destruct H as [->|H], H1 as [->|H1]; auto.
    + exfalso; apply N1. rewrite <- E. apply in_map; exact H1.
    + exfalso; apply N1. rewrite E. apply in_map; exact H.
Qed.

Lemma defined_not_orphan d p : defined d p = true -> orphan d p = false.
Proof. unfold defined, orphan. intros ->. cbn. apply andb_false_r. Qed.

Lemma defined_survives d p : defined d p = true -> survives d p = true.
Proof. intros H. unfold survives. rewrite (defined_not_orphan _ _ H). reflexivity. Qed.

(* ---------------------------------------------------------------- prerequisites of a reloaded task *)
Lemma reload_proxy_keys db df np p : map (map fst) (p_prereqs (reload_proxy db df np p)) = np.
Proof.
  cbn. rewrite map_map. rewrite <- (map_id np) at 2. apply map_ext. intros l.
  rewrite map_map. cbn. apply map_id.
Qed.

Lemma reload_proxy_values db df np p k v :
  In (k, v) (concat (p_prereqs (reload_proxy db df np p))) -> In k (concat np) /\ v = new_value db p k.
Proof.
  cbn. rewrite in_concat. intros [l [H1 H2]]. apply in_map_iff in H1. destruct H1 as [ks [<- H1]].
  apply in_map_iff in H2. destruct H2 as [k' [E H2]]. inversion E; subst. split; [|reflexivity].
  apply in_concat. exists ks; auto.
Qed.

Lemma reload_proxy_has db df np p k :
  In k (concat np) -> In (k, new_value db p k) (concat (p_prereqs (reload_proxy db df np p))).
Proof.
  cbn. rewrite !in_concat. intros [ks [H1 H2]].
  exists (map (fun k => (k, new_value db p k)) ks). split; [apply in_map; exact H1|].
  apply in_map_iff. exists k; auto.
Qed.

Lemma image_defined d db p : orphan d p = false -> image d db p = reload_proxy db (defined d p) (newpre_of d p) p.
Proof. unfold image. intros ->. reflexivity. Qed.

(* ---------------------------------------------------------------- unchanged definition *)
Lemma map_pairs_id db p (pre : list (list (key * bool))) :
  (forall k v, In (k, v) (concat pre) -> new_value db p k = v) ->
  map (map (fun k => (k, new_value db p k))) (map (map fst) pre) = pre.
Proof.
  induction pre as [|l r IH]; cbn; [reflexivity|]. intros H. f_equal.
  - assert (H' : forall k v, In (k, v) l -> new_value db p k = v) by (intros; apply H; apply in_or_app; auto).
    clear - H'. induction l as [|[k v] t IHl]; cbn; [reflexivity|].
    rewrite (H' k v); [|left; reflexivity]. f_equal. apply IHl. intros; apply H'; right; auto.
  - apply IH. intros; apply H; apply in_or_app; auto.
Qed.

Lemma reload_same_one d db p :
  defined d p = true -> newpre_of d p = map (map fst) (p_prereqs p) ->
  functional (concat (p_prereqs p)) -> p_cut p = false ->
  reload_one d db p = [set_queued p false].
Proof.
  intros D NP F C. unfold reload_one. rewrite (defined_not_orphan _ _ D).
  unfold reload_proxy, set_queued. rewrite D, NP, C. cbn.
  rewrite map_pairs_id; [reflexivity|]. intros k v H. apply new_value_kept; auto.
Qed.

Lemma reload_same d db pool :
  (forall p, In p pool -> defined d p = true /\ newpre_of d p = map (map fst) (p_prereqs p) /\
                          functional (concat (p_prereqs p)) /\ p_cut p = false) ->
  reload_pool d db pool = map (fun p => set_queued p false) pool.
Proof.
  unfold reload_pool. induction pool as [|p r IH]; cbn; [reflexivity|]. intros H.
  destruct (H p (or_introl eq_refl)) as [D [NP [F C]]].
  rewrite (reload_same_one d db p D NP F C). cbn. f_equal. apply IH. intros; apply H; right; auto.
Qed.

(* ---------------------------------------------------------------- reloading twice *)
Definition wf_def (d : newdef) : Prop :=
  forall i l, In (i, l) (d_pre d) -> mem N.eqb (snd i) (d_new d) = true.

Definition forget_undefined (d : newdef) (q : proxy) : proxy :=
  if defined d q then q else
  {| p_id := p_id q; p_status := p_status q; p_flows := p_flows q; p_submit := p_submit q;
     p_held := p_held q; p_queued := false; p_runahead := p_runahead q; p_manual := p_manual q;
     p_outputs := p_outputs q; p_prereqs := []; p_cut := p_cut q |}.

Lemma tid_assoc_In {B} i (l : list (tid * B)) v : assoc tid_eqb i l = Some v -> In (i, v) l.
Proof.
  induction l as [|[i' v'] r IH]; cbn; [discriminate|].
  destruct (tid_eqb i i') eqn:E.
  - apply tid_eqb_spec in E; subst. intros H; inversion H; auto.
  - auto.
Qed.

Lemma newpre_undefined d p : wf_def d -> defined d p = false -> newpre_of d p = [].
Proof.
  intros W D. unfold newpre_of. destruct (assoc tid_eqb (p_id p) (d_pre d)) eqn:E; [|reflexivity].
  apply tid_assoc_In in E. apply W in E. unfold defined, p_name in D. congruence.
Qed.

Lemma settled_orphan d q : orphan (settled d) q = false.
Proof. unfold orphan, settled; cbn. destruct (mem N.eqb (p_name q) (d_new d)); reflexivity. Qed.

(* the value of a key of the new definition, looked up in the already reloaded proxy *)
Lemma new_value_again db db' df np p k :
  In k (concat np) -> new_value db' (reload_proxy db df np p) k = new_value db p k.
Proof.
  intros H. apply new_value_kept.
  - intros k0 v v' H1 H2. apply reload_proxy_values in H1, H2. destruct H1 as [_ ->], H2 as [_ ->]. reflexivity.
  - apply reload_proxy_has; exact H.
Qed.

Lemma map_map_ext_in {A B} (f g : A -> B) (ll : list (list A)) :
  (forall x, In x (concat ll) -> f x = g x) -> map (map f) ll = map (map g) ll.
Proof.
  induction ll as [|l r IH]; cbn; [reflexivity|]. intros H. f_equal.
  - apply map_ext_in. intros; apply H; apply in_or_app; auto.
  - apply IH. intros; apply H; apply in_or_app; auto.
Qed.

Lemma reload_proxy_again db db' df np p :
  reload_proxy db' df np (reload_proxy db df np p) = reload_proxy db df np p.
Proof.
  assert (E : map (map (fun k => (k, new_value db' (reload_proxy db df np p) k))) np
              = map (map (fun k => (k, new_value db p k))) np).
  { apply map_map_ext_in. intros k H. f_equal. apply new_value_again; exact H. }
  unfold reload_proxy at 1. rewrite E. reflexivity.
Qed.

Lemma reload_twice_one d db db' p :
  wf_def d -> survives d p = true ->
  reload_one (settled d) db' (image d db p) = [forget_undefined d (image d db p)].
Proof.
  intros W S. unfold reload_one. rewrite settled_orphan.
  assert (Dq : defined (settled d) (image d db p) = defined d p).
  { unfold defined, p_name. rewrite image_id. reflexivity. }
  assert (Nq : newpre_of (settled d) (image d db p) = newpre_of d p).
  { unfold newpre_of. rewrite image_id. reflexivity. }
  rewrite Dq, Nq. unfold forget_undefined.
  assert (Dq' : defined d (image d db p) = defined d p).
  { unfold defined, p_name. rewrite image_id. reflexivity. }
  rewrite Dq'. unfold image. destruct (orphan d p) eqn:O.
  - (* a kept orphan *)
    assert (D : defined d p = false).
    { unfold orphan in O. unfold defined. apply andb_true_iff in O. destruct O as [_ O].
      apply negb_true_iff in O. exact O. }
    rewrite D, (newpre_undefined d p W D).
    unfold reload_proxy. cbn. reflexivity.
  - rewrite reload_proxy_again. destruct (defined d p) eqn:D; [reflexivity|].
    rewrite (newpre_undefined d p W D). reflexivity.
Qed.

Lemma reload_twice d db db' pool :
  wf_def d ->
  reload_pool (settled d) db' (reload_pool d db pool) = map (forget_undefined d) (reload_pool d db pool).
Proof.
  intros W. unfold reload_pool. induction pool as [|p r IH]; cbn; [reflexivity|].
  rewrite flat_map_app, map_app, IH. f_equal.
  rewrite reload_one_spec. destruct (survives d p) eqn:S; [|reflexivity].
  cbn. rewrite app_nil_r. apply reload_twice_one; auto.
Qed.

Lemma forget_id_when d db p :
  wf_def d -> survives d p = true -> orphan d p = false ->
  forget_undefined d (image d db p) = image d db p.
Proof.
  intros W S O. unfold forget_undefined.
  assert (Dq' : defined d (image d db p) = defined d p).
  { unfold defined, p_name. rewrite image_id. reflexivity. }
  rewrite Dq'. destruct (defined d p) eqn:D; [reflexivity|].
  rewrite (image_defined _ _ _ O), D, (newpre_undefined d p W D). reflexivity.
Qed.

Lemma reload_idempotent d db db' pool :
  wf_def d -> (forall p, In p pool -> orphan d p = true -> removable p = true) ->
  reload_pool (settled d) db' (reload_pool d db pool) = reload_pool d db pool.
Proof.
  intros W H. rewrite reload_twice by exact W.
  unfold reload_pool. induction pool as [|p r IH]; cbn; [reflexivity|].
  rewrite map_app, IH by (intros; apply H; [right|]; auto). f_equal.
  rewrite reload_one_spec. destruct (survives d p) eqn:S; [|reflexivity]. cbn. f_equal.
  apply forget_id_when; auto.
  destruct (orphan d p) eqn:O; [|reflexivity].
  unfold survives in S. rewrite O, (H p (or_introl eq_refl) O) in S. discriminate.
Qed.

(* ---------------------------------------------------------------- orphans *)
Lemma orphan_dropped_not_started d p : survives d p = false -> started p = false.
Proof.
  intros S. apply survives_spec in S. destruct S as [_ R]. unfold removable in R. unfold started.
  rewrite R; reflexivity.
Qed.

(* ---------------------------------------------------------------- the queued flag *)
Lemma mainloop_visit_core r q : same_core q (mainloop_visit r q) /\ p_prereqs (mainloop_visit r q) = p_prereqs q
                                 /\ p_cut (mainloop_visit r q) = p_cut q.
Proof.
  unfold mainloop_visit, queue_if_ready, same_core.
  destruct (negb (N.eqb (p_status q) st_waiting) || p_queued q || p_runahead q); [repeat split; reflexivity|].
  destruct (negb (p_queued q) && negb (p_runahead q) && negb (p_manual q) && (negb (p_held q) && r));
    cbn; repeat split; reflexivity.
Qed.

Lemma requeue_restores d db p :
  defined d p = true -> p_status p = st_waiting -> p_held p = false -> p_runahead p = false ->
  p_manual p = false ->
  p_queued (mainloop_visit true (image d db p)) = true.
Proof.
  intros D W Hh Hr Hm. rewrite (image_defined _ _ _ (defined_not_orphan _ _ D)).
  unfold mainloop_visit, queue_if_ready. cbn. rewrite W, Hh, Hr, Hm. reflexivity.
Qed.

Lemma held_never_requeued d db p r :
  defined d p = true -> p_held p = true -> p_queued (mainloop_visit r (image d db p)) = false.
Proof.
  intros D Hh. rewrite (image_defined _ _ _ (defined_not_orphan _ _ D)).
  unfold mainloop_visit, queue_if_ready. cbn. rewrite Hh. cbn. rewrite andb_false_r.
  destruct (negb (N.eqb (p_status p) st_waiting) || false || p_runahead p); reflexivity.
Qed.
