(* Proofs/RestrictedEvalProofs.v — lemmas about Model/RestrictedEval.v *)
From Coq Require Import List Bool Arith String Lia.
From Cylc Require Import Base.Util Gen.EvalWhitelist Model.RestrictedEval.
Import ListNotations.
Local Open Scope string_scope.
Local Open Scope list_scope.

(* ---------- induction over rose trees ---------- *)
Section PyInd.
  Variable P : pyast -> Prop.
  Hypothesis HNode : forall k n cs, Forall P cs -> P (Node k n cs).
  Fixpoint pyast_ind' (t : pyast) : P t :=
    match t with
    | Node k n cs =>
        HNode k n cs
          ((fix go (l : list pyast) : Forall P l :=
              match l with
              | [] => Forall_nil P
              | c :: r => Forall_cons c (pyast_ind' c) (go r)
              end) cs)
    end.
End PyInd.

Lemma mem_str_In k l : mem String.eqb k l = true <-> In k l.
Proof. apply mem_In. intros a b. apply String.eqb_eq. Qed.

(* ---------- unfolding equations for the nested fixpoints ---------- *)
Fixpoint first_bad_list (wl : list string) (l : list pyast) : option string :=
  match l with
  | [] => None
  | c :: r => match first_bad wl c with Some b => Some b | None => first_bad_list wl r end
  end.

Lemma first_bad_node wl k n cs :
  first_bad wl (Node k n cs) =
  if whitelisted wl k then (if reserved_name k n then Some k else first_bad_list wl cs)
  else Some k.
Proof.
  cbn [first_bad]. destruct (whitelisted wl k); [|reflexivity].
  destruct (reserved_name k n); [reflexivity|].
  induction cs as [|c r IH]; [reflexivity|].
  cbn. destruct (first_bad wl c); [reflexivity|exact IH].
Qed.

Section EvalEq.
  Variable env : nat -> option nat.
  Variable truthy : nat -> bool.

  Fixpoint eval_ops (is_and : bool) (l : list pyast) : list nat * outcome :=
    match l with
    | [] => ([], Unsupported)
    | c :: r =>
        match r with
        | [] => py_eval env truthy c
        | _ :: _ =>
            match py_eval env truthy c with
            | (tr, Val x) =>
                if Bool.eqb (truth truthy x) is_and
                then let '(tr', o) := eval_ops is_and r in ((tr ++ tested x ++ tr')%list, o)
                else ((tr ++ tested x)%list, Val x)
            | other => other
            end
        end
    end.

  Definition eval_name (n : nat) : list nat * outcome :=
    match env n with Some i => ([], Val (VObj i)) | None => ([], NameErr n) end.

  Definition eval_boolop (cs : list pyast) : list nat * outcome :=
    match cs with
    | Node op _ [] :: values =>
        if String.eqb op "And" || String.eqb op "Or"
        then eval_ops (String.eqb op "And") values
        else ([], Unsupported)
    | _ => ([], Unsupported)
    end.

  Lemma py_eval_node k n cs :
    py_eval env truthy (Node k n cs) =
    if String.eqb k "Expression" then
      match cs with [b] => py_eval env truthy b | _ => ([], Unsupported) end
    else if String.eqb k "Name" then eval_name n
    else if String.eqb k "BoolOp" then eval_boolop cs
    else ([], Unsupported).
  Proof.
    cbn [py_eval]. destruct (String.eqb k "Expression"); [reflexivity|].
    destruct (String.eqb k "Name"); [reflexivity|].
    destruct (String.eqb k "BoolOp"); [|reflexivity].
    unfold eval_boolop.
    destruct cs as [|[op n0 [|? ?]] l]; try reflexivity.
    destruct (String.eqb op "And" || String.eqb op "Or"); [|reflexivity].
    match goal with |- ?f l = _ => set (G := f) end.
    induction l as [|c r IH]; [reflexivity|].
    destruct r as [|c2 r2]; [reflexivity|].
    change (G (c :: c2 :: r2)) with
      (match py_eval env truthy c with
       | (tr, Val x) =>
           if Bool.eqb (truth truthy x) (String.eqb op "And")
           then let '(tr', o) := G (c2 :: r2) in ((tr ++ tested x ++ tr')%list, o)
           else ((tr ++ tested x)%list, Val x)
       | other => other
       end).
    rewrite IH. reflexivity.
  Qed.
End EvalEq.

(* ---------- the whitelist check ---------- *)
Lemma find_app {A} (p : A -> bool) l1 l2 :
  find p (l1 ++ l2) = match find p l1 with Some x => Some x | None => find p l2 end.
Proof. induction l1 as [|x l1 IH]; cbn; [reflexivity|]. destruct (p x); auto. Qed.

(* the node reported is the first bad one (non-whitelisted class, or one of
   the two reserved names) in visit order *)
Lemma first_bad_preorder wl t :
  first_bad wl t = option_map fst (find (bad_node wl) (preorder_nodes t)).
Proof.
  induction t as [k n cs IH] using pyast_ind'.
  rewrite first_bad_node. cbn [preorder_nodes find]. unfold bad_node at 1. cbn [fst snd].
  destruct (whitelisted wl k); cbn [negb orb]; [|reflexivity].
  destruct (reserved_name k n); [reflexivity|].
  induction IH as [|c r Hc _ IHr]; [reflexivity|].
  cbn [first_bad_list flat_map]. rewrite find_app, Hc.
  destruct (find (bad_node wl) (preorder_nodes c)); [reflexivity|exact IHr].
Qed.

Lemma find_first {A} (p : A -> bool) l x :
  find p l = Some x ->
  exists l1 l2, l = l1 ++ x :: l2 /\ p x = true /\ forallb (fun y => negb (p y)) l1 = true.
Proof.
  induction l as [|y l IH]; cbn; [discriminate|].
  destruct (p y) eqn:E.
  - intros [= <-]. exists [], l. auto.
  - intros H. destruct (IH H) as [l1 [l2 [-> [Hx Hl]]]].
    exists (y :: l1), l2. cbn. rewrite E. auto.
Qed.

Lemma find_none_iff {A} (p : A -> bool) l :
  find p l = None <-> forallb (fun y => negb (p y)) l = true.
Proof.
  induction l as [|y l IH]; cbn; [tauto|].
  destruct (p y); cbn; [split; discriminate|exact IH].
Qed.

Lemma rejected_first wl t k :
  first_bad wl t = Some k ->
  exists before n after,
    preorder_nodes t = before ++ (k, n) :: after /\
    bad_node wl (k, n) = true /\
    forallb (fun p => negb (bad_node wl p)) before = true.
Proof.
  rewrite first_bad_preorder.
  destruct (find (bad_node wl) (preorder_nodes t)) as [[k' n]|] eqn:H; [|discriminate].
  intros [= <-]. destruct (find_first _ _ _ H) as [l1 [l2 [E [Hk Hl]]]].
  exists l1, n, l2. auto.
Qed.

Lemma accepted_iff wl t :
  first_bad wl t = None <->
  forallb (fun p => negb (bad_node wl p)) (preorder_nodes t) = true.
Proof.
  rewrite first_bad_preorder, <- find_none_iff.
  destruct (find (bad_node wl) (preorder_nodes t)); cbn; split; congruence.
Qed.

Lemma rejected_iff wl t :
  (exists k, first_bad wl t = Some k) <->
  exists p, In p (preorder_nodes t) /\ bad_node wl p = true.
Proof.
  split.
  - intros [k H]. destruct (rejected_first _ _ _ H) as [b [n [a [E [Hk _]]]]].
    exists (k, n). split; [|exact Hk]. rewrite E. apply in_or_app. right. now left.
  - intros [p [Hin Hk]]. destruct (first_bad wl t) as [k'|] eqn:E; [eauto|].
    apply accepted_iff in E. rewrite forallb_forall in E. specialize (E p Hin).
    rewrite Hk in E. discriminate.
Qed.

Lemma preorder_map_nodes t : preorder t = map fst (preorder_nodes t).
Proof.
  induction t as [k n cs IH] using pyast_ind'. cbn. f_equal.
  induction IH as [|c r Hc _ IHr]; [reflexivity|].
  cbn. now rewrite map_app, Hc, IHr.
Qed.

Lemma accepted_all_whitelisted wl t :
  first_bad wl t = None -> forallb (whitelisted wl) (preorder t) = true.
Proof.
  intros H. apply accepted_iff in H. rewrite preorder_map_nodes.
  rewrite forallb_forall in *. intros k Hk. apply in_map_iff in Hk.
  destruct Hk as [[k' n] [<- Hp]]. specialize (H _ Hp).
  unfold bad_node in H. cbn in *. apply negb_true_iff, orb_false_iff in H.
  destruct H as [H _]. now apply negb_false_iff in H.
Qed.

Lemma names_spec t n : In n (names t) <-> In ("Name", n) (preorder_nodes t).
Proof.
  induction t as [k m cs IH] using pyast_ind'.
  cbn [names preorder_nodes]. rewrite in_app_iff. cbn [In].
  assert (Hcs : In n (flat_map names cs) <-> In ("Name", n) (flat_map preorder_nodes cs)).
  { induction IH as [|c r Hc _ IHr]; [tauto|]. cbn. rewrite !in_app_iff, Hc, IHr. tauto. }
  rewrite Hcs. destruct (String.eqb_spec k "Name") as [->|Hne].
  - cbn. split.
    + intros [[<-|[]]|H]; auto.
    + intros [[= <-]|H]; auto.
  - cbn. split.
    + intros [[]|H]; auto.
    + intros [[= E _]|H]; [congruence|auto].
Qed.

(* an accepted tree never mentions `__debug__` or `__builtins__` *)
Lemma accepted_no_reserved wl t :
  first_bad wl t = None -> ~ In DEBUG (names t) /\ ~ In BUILTINS (names t).
Proof.
  intros H. apply accepted_iff in H. rewrite forallb_forall in H.
  split; intros Hn; apply names_spec in Hn; specialize (H _ Hn);
    unfold bad_node, reserved_name in H; cbn in H;
    rewrite orb_true_r in H; discriminate.
Qed.

(* conversely a tree that mentions one of them is rejected by every whitelist *)
Lemma reserved_rejected wl t n :
  n = DEBUG \/ n = BUILTINS -> In n (names t) -> exists k, first_bad wl t = Some k.
Proof.
  intros Hn Hin. apply rejected_iff. exists ("Name", n). split; [now apply names_spec|].
  unfold bad_node, reserved_name. cbn. destruct Hn as [-> | ->]; cbn; now rewrite orb_true_r.
Qed.

(* ---------- evaluation never reports "rejected" itself ---------- *)
Definition not_rej (r : list nat * outcome) : Prop :=
  match snd r with Rejected _ | SyntaxErr => False | _ => True end.

Lemma eval_ops_not_rej env truthy is_and l :
  Forall (fun t => not_rej (py_eval env truthy t)) l -> not_rej (eval_ops env truthy is_and l).
Proof.
  induction 1 as [|c r Hc Hr IH]; [exact I|].
  cbn [eval_ops]. destruct r as [|c2 r2]; [exact Hc|].
  destruct (py_eval env truthy c) as [tr [k| |x|m|]]; try exact Hc.
  destruct (Bool.eqb (truth truthy x) is_and); [|exact I].
  destruct (eval_ops env truthy is_and (c2 :: r2)) as [tr' o]. exact IH.
Qed.

Lemma py_eval_not_rej env truthy t : not_rej (py_eval env truthy t).
Proof.
  induction t as [k n cs IH] using pyast_ind'.
  rewrite py_eval_node.
  destruct (String.eqb k "Expression").
  { destruct cs as [|b [|? ?]]; try exact I. now inversion IH. }
  destruct (String.eqb k "Name").
  { unfold eval_name. destruct (env n); exact I. }
  destruct (String.eqb k "BoolOp"); [|exact I].
  unfold eval_boolop.
  destruct cs as [|[op n0 [|? ?]] vs]; try exact I.
  destruct (String.eqb op "And" || String.eqb op "Or"); [|exact I].
  apply eval_ops_not_rej. now inversion IH.
Qed.

(* rejected <=> the visitor found a node; then nothing was evaluated *)
Lemma restricted_eval_rejected env truthy wl t tr k :
  restricted_eval env truthy wl (Some t) = (tr, Rejected k) <->
  first_bad wl t = Some k /\ tr = [].
Proof.
  unfold restricted_eval. destruct (first_bad wl t) as [k'|] eqn:E.
  - split; [intros [= <- <-]; auto|intros [[= <-] ->]; reflexivity].
  - split; [|intros [? _]; discriminate].
    destruct (in_fragment t); [|discriminate].
    intros H. pose proof (py_eval_not_rej env truthy t) as Hn.
    unfold not_rej in Hn. rewrite H in Hn. destruct Hn.
Qed.

Lemma restricted_eval_accepted env truthy wl t :
  first_bad wl t = None -> in_fragment t = true ->
  restricted_eval env truthy wl (Some t) = py_eval env truthy t.
Proof. unfold restricted_eval. now intros -> ->. Qed.

(* ---------- the CompletionEvaluator whitelist (generated) ---------- *)
Definition safe6 : list string := ["Expression"; "Name"; "Load"; "BoolOp"; "And"; "Or"].

Lemma completion_whitelist_shape :
  forallb (fun k => mem String.eqb k ("BinOp" :: safe6)) completion_whitelist = true.
Proof. vm_compute. reflexivity. Qed.

Lemma operators_not_in_completion :
  forallb (fun k => negb (whitelisted completion_whitelist k)) operator_kinds = true.
Proof. vm_compute. reflexivity. Qed.

Lemma completion_wl_cases k :
  whitelisted completion_whitelist k = true -> k = "BinOp" \/ In k safe6.
Proof.
  intros H. apply mem_str_In in H.
  pose proof completion_whitelist_shape as S. rewrite forallb_forall in S.
  specialize (S k H). apply mem_str_In in S. destruct S as [<-|S]; auto.
Qed.

Lemma first_bad_list_none wl cs :
  first_bad_list wl cs = None -> Forall (fun c => first_bad wl c = None) cs.
Proof.
  induction cs as [|c r IH]; cbn; [constructor|].
  destruct (first_bad wl c) eqn:E; [discriminate|]. intros H. constructor; auto.
Qed.

Lemma accepted_root wl t : first_bad wl t = None -> whitelisted wl (kind_of t) = true.
Proof.
  destruct t as [k n cs]. rewrite first_bad_node. cbn.
  destruct (whitelisted wl k); [reflexivity|discriminate].
Qed.

(* accepted trees are BoolOp/Name-only: BinOp can never pass, because it always
   has an operator child and no operator is whitelisted *)
Lemma completion_accepts_only_safe t :
  binop_wf operator_kinds t = true ->
  first_bad completion_whitelist t = None ->
  Forall (fun k => In k safe6) (preorder t).
Proof.
  induction t as [k n cs IH] using pyast_ind'.
  cbn [binop_wf]. rewrite first_bad_node, andb_true_iff. intros [Hb Hcs] Hacc.
  destruct (whitelisted completion_whitelist k) eqn:Hk; [|discriminate].
  destruct (reserved_name k n); [discriminate|].
  apply first_bad_list_none in Hacc.
  assert (Hsafe : In k safe6).
  { destruct (completion_wl_cases k Hk) as [->|H]; [|exact H]. exfalso.
    rewrite String.eqb_refl in Hb. apply existsb_exists in Hb. destruct Hb as [c [Hc Hop]].
    apply mem_str_In in Hop.
    rewrite Forall_forall in Hacc. pose proof (accepted_root _ _ (Hacc c Hc)) as Hw.
    pose proof operators_not_in_completion as Hn. rewrite forallb_forall in Hn.
    specialize (Hn _ Hop). rewrite Hw in Hn. discriminate. }
  cbn [preorder]. constructor; [exact Hsafe|].
  rewrite forallb_forall in Hcs.
  clear Hb Hk Hsafe. induction IH as [|c r Hc _ IHr]; cbn; [constructor|].
  apply Forall_app. split.
  - apply Hc; [apply Hcs; now left|]. now inversion Hacc.
  - apply IHr; [intros x Hx; apply Hcs; now right|now inversion Hacc].
Qed.

(* ---------- purity of the evaluation ---------- *)
Lemma names_node k n cs :
  names (Node k n cs) = ((if String.eqb k "Name" then [n] else []) ++ flat_map names cs)%list.
Proof. reflexivity. Qed.

Lemma eval_ops_ext e1 e2 truthy is_and l :
  Forall (fun t => (forall n, In n (names t) -> e1 n = e2 n) ->
                   py_eval e1 truthy t = py_eval e2 truthy t) l ->
  (forall n, In n (flat_map names l) -> e1 n = e2 n) ->
  eval_ops e1 truthy is_and l = eval_ops e2 truthy is_and l.
Proof.
  induction 1 as [|c r Hc Hr IH]; intros Hn; [reflexivity|].
  cbn [eval_ops]. cbn [flat_map] in Hn.
  rewrite Hc by (intros n H; apply Hn, in_or_app; now left).
  destruct r as [|c2 r2]; [reflexivity|].
  rewrite IH by (intros n H; apply Hn, in_or_app; now right). reflexivity.
Qed.

(* the outcome (and the access trace) depends only on the variables named *)
Lemma py_eval_ext e1 e2 truthy t :
  (forall n, In n (names t) -> e1 n = e2 n) ->
  py_eval e1 truthy t = py_eval e2 truthy t.
Proof.
  induction t as [k n cs IH] using pyast_ind'. intros Hn.
  rewrite !py_eval_node. rewrite names_node in Hn.
  destruct (String.eqb k "Expression") eqn:Ek.
  { destruct cs as [|b [|? ?]]; try reflexivity. inversion IH as [|? ? Hb _]; subst.
    apply Hb. intros m Hm. apply Hn. apply in_or_app. right. cbn. rewrite app_nil_r. exact Hm. }
  destruct (String.eqb k "Name") eqn:En.
  { unfold eval_name. rewrite (Hn n) by (cbn; now left). reflexivity. }
  destruct (String.eqb k "BoolOp"); [|reflexivity].
  unfold eval_boolop.
  destruct cs as [|[op n0 [|? ?]] vs]; try reflexivity.
  destruct (String.eqb op "And" || String.eqb op "Or"); [|reflexivity].
  apply eval_ops_ext.
  - now inversion IH.
  - intros m Hm. apply Hn. cbn [app]. cbn [flat_map]. apply in_or_app. right. exact Hm.
Qed.

(* what evaluation can produce / touch *)
Definition from_env (env : nat -> option nat) (t : pyast) (i : nat) : Prop :=
  exists n, In n (names t) /\ env n = Some i.

Definition good (env : nat -> option nat) (t : pyast) (r : list nat * outcome) : Prop :=
  (forall i, In i (fst r) -> from_env env t i) /\
  match snd r with
  | Val (VObj i) => from_env env t i
  | NameErr n => In n (names t) /\ env n = None
  | _ => True
  end.

Definition from_list (env : nat -> option nat) (l : list pyast) (i : nat) : Prop :=
  exists n, In n (flat_map names l) /\ env n = Some i.

Definition good_list (env : nat -> option nat) (l : list pyast) (r : list nat * outcome) : Prop :=
  (forall i, In i (fst r) -> from_list env l i) /\
  match snd r with
  | Val (VObj i) => from_list env l i
  | NameErr n => In n (flat_map names l) /\ env n = None
  | _ => True
  end.

Lemma from_env_head env c r i : from_env env c i -> from_list env (c :: r) i.
Proof. intros [n [H E]]. exists n. split; [cbn; apply in_or_app; now left|exact E]. Qed.
Lemma from_list_tail env c r i : from_list env r i -> from_list env (c :: r) i.
Proof. intros [n [H E]]. exists n. split; [cbn; apply in_or_app; now right|exact E]. Qed.

Lemma good_head env c r res : good env c res -> good_list env (c :: r) res.
Proof.
  intros [Ht Ho]. split.
  - intros i Hi. apply from_env_head. auto.
  - destruct (snd res) as [k| |[i]|m|]; auto.
    + now apply from_env_head.
    + destruct Ho. split; [cbn; apply in_or_app; now left|assumption].
Qed.

Lemma good_tail env c r res : good_list env r res -> good_list env (c :: r) res.
Proof.
  intros [Ht Ho]. split.
  - intros i Hi. apply from_list_tail. auto.
  - destruct (snd res) as [k| |[i]|m|]; auto.
    + now apply from_list_tail.
    + destruct Ho. split; [cbn; apply in_or_app; now right|assumption].
Qed.

Lemma eval_ops_good env truthy is_and l :
  Forall (fun t => good env t (py_eval env truthy t)) l ->
  good_list env l (eval_ops env truthy is_and l).
Proof.
  induction 1 as [|c r Hc Hr IH]; [split; [intros i []|exact I]|].
  cbn [eval_ops]. destruct r as [|c2 r2]; [now apply good_head|].
  pose proof (good_head env c (c2 :: r2) _ Hc) as Hh.
  destruct (py_eval env truthy c) as [tr [k| |x|m|]]; try exact Hh.
  assert (Htx : forall i, In i (tr ++ tested x)%list -> from_list env (c :: c2 :: r2) i).
  { intros i Hi. apply in_app_or in Hi. destruct Hi as [Hi|Hi]; [now apply (proj1 Hh)|].
    destruct x as [j]; cbn in Hi. destruct Hi as [<-|[]]. exact (proj2 Hh). }
  destruct (Bool.eqb (truth truthy x) is_and).
  - pose proof (good_tail env c _ _ IH) as Ht.
    destruct (eval_ops env truthy is_and (c2 :: r2)) as [tr' o]. split.
    + cbn [fst]. intros i Hi. rewrite app_assoc in Hi. apply in_app_or in Hi.
      destruct Hi as [Hi|Hi]; [now apply Htx|]. now apply (proj1 Ht).
    + exact (proj2 Ht).
  - split; [exact Htx|exact (proj2 Hh)].
Qed.

Lemma good_list_node env k n cs res :
  good_list env cs res -> good env (Node k n cs) res.
Proof.
  assert (F : forall i, from_list env cs i -> from_env env (Node k n cs) i).
  { intros i [m [H E]]. exists m. split; [rewrite names_node; apply in_or_app; now right|exact E]. }
  assert (G : forall m, In m (flat_map names cs) -> In m (names (Node k n cs))).
  { intros m H. rewrite names_node. apply in_or_app. now right. }
  intros [Ht Ho]. split; [auto|].
  destruct (snd res) as [k'| |[i]|m|]; auto.
  destruct Ho; auto.
Qed.

Lemma py_eval_good env truthy t : good env t (py_eval env truthy t).
Proof.
  induction t as [k n cs IH] using pyast_ind'.
  rewrite py_eval_node.
  destruct (String.eqb k "Expression") eqn:Ek.
  { destruct cs as [|b [|? ?]]; try (split; [intros i []|exact I]).
    inversion IH as [|? ? Hb _]; subst. apply good_list_node. now apply good_head. }
  destruct (String.eqb k "Name") eqn:En.
  { assert (Hin : In n (names (Node k n cs))) by (rewrite names_node, En; now left).
    unfold eval_name. destruct (env n) as [i|] eqn:E.
    { split; [intros j []|]. exists n. auto. }
    split; [intros j []|]. cbn. auto. }
  destruct (String.eqb k "BoolOp"); [|split; [intros i []|exact I]].
  unfold eval_boolop.
  destruct cs as [|[op n0 [|? ?]] vs]; try (split; [intros i []|exact I]).
  destruct (String.eqb op "And" || String.eqb op "Or"); [|split; [intros i []|exact I]].
  apply good_list_node. apply good_tail. apply eval_ops_good. now inversion IH.
Qed.

(* ---------- dangerous syntax is never whitelisted by cylc's evaluators ---------- *)
Definition dangerous : list string :=
  ["Call"; "Lambda"; "ListComp"; "SetComp"; "DictComp"; "GeneratorExp"; "NamedExpr";
   "Await"; "Yield"; "YieldFrom"; "JoinedStr"; "FormattedValue"; "Starred"; "IfExp"].
Definition completion_extra : list string := ["Attribute"; "Subscript"; "Constant"; "UnaryOp"; "Compare"].

Lemma dangerous_not_whitelisted :
  forallb (fun k => negb (whitelisted completion_whitelist k)
                    && negb (whitelisted ranking_whitelist k)) dangerous = true.
Proof. vm_compute. reflexivity. Qed.

Lemma completion_extra_not_whitelisted :
  forallb (fun k => negb (whitelisted completion_whitelist k)) completion_extra = true.
Proof. vm_compute. reflexivity. Qed.

Lemma contains_bad_rejected wl t k :
  In k (preorder t) -> whitelisted wl k = false -> exists k', first_bad wl t = Some k'.
Proof.
  intros H1 H2. apply rejected_iff. rewrite preorder_map_nodes in H1.
  apply in_map_iff in H1. destruct H1 as [[k' n] [E Hp]]. cbn in E. subst k'.
  exists (k, n). split; [exact Hp|]. unfold bad_node. cbn. now rewrite H2.
Qed.

(* ---------- every descendant is visited, at every depth ---------- *)
Inductive descendant : pyast -> pyast -> Prop :=
| desc_refl : forall t, descendant t t
| desc_child : forall k n cs c s, In c cs -> descendant s c -> descendant s (Node k n cs).

Definition ident_of (t : pyast) : nat := match t with Node _ n _ => n end.

Lemma accepted_children wl k n cs c :
  first_bad wl (Node k n cs) = None -> In c cs -> first_bad wl c = None.
Proof.
  rewrite first_bad_node. destruct (whitelisted wl k); [|discriminate].
  destruct (reserved_name k n); [discriminate|].
  intros H Hc. apply first_bad_list_none in H. rewrite Forall_forall in H. now apply H.
Qed.

(* acceptance of a tree is acceptance of every sub-tree, whatever the kinds of
   the nodes in between (Attribute, Subscript, Call, ...) *)
Lemma accepted_descendant wl t s :
  descendant s t -> first_bad wl t = None -> first_bad wl s = None.
Proof.
  induction 1 as [t|k n cs c s Hc Hd IH]; [auto|].
  intros H. apply IH. eapply accepted_children; eauto.
Qed.

Lemma accepted_descendant_whitelisted wl t s :
  descendant s t -> first_bad wl t = None ->
  whitelisted wl (kind_of s) = true /\ reserved_name (kind_of s) (ident_of s) = false.
Proof.
  intros Hd H. pose proof (accepted_descendant wl t s Hd H) as Hs.
  destruct s as [k n cs]. rewrite first_bad_node in Hs. cbn.
  destruct (whitelisted wl k); [|discriminate].
  destruct (reserved_name k n); [discriminate|auto].
Qed.

(* the visit order contains every descendant *)
Lemma descendant_in_preorder t s :
  descendant s t -> In (kind_of s, ident_of s) (preorder_nodes t).
Proof.
  induction 1 as [t|k n cs c s Hc Hd IH].
  - destruct t as [k n cs]. cbn. now left.
  - cbn [preorder_nodes]. right. apply in_flat_map. eauto.
Qed.

(* a bad node anywhere below the root makes the whole expression rejected *)
Lemma bad_descendant_rejected wl t s :
  descendant s t -> bad_node wl (kind_of s, ident_of s) = true ->
  exists k, first_bad wl t = Some k.
Proof.
  intros Hd Hb. apply rejected_iff. eexists. split; [eapply descendant_in_preorder; eauto|exact Hb].
Qed.
