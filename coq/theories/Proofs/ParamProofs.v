(* Proofs/ParamProofs.v — lemmas about Model/Param.v *)
From Coq Require Import List Bool ZArith Lia.
From Cylc Require Import Base.Util Model.Param.
Import ListNotations.
Open Scope Z_scope.

(* ---------- specification vocabulary ---------- *)
(* all assignments of one value to each parameter, first parameter outermost *)
Fixpoint combos (ps : list (pname * list value)) : list dict :=
  match ps with
  | [] => [[]]
  | (p, vs) :: r => flat_map (fun v => map (cons (p, v)) (combos r)) vs
  end.

(* [a] assigns to every parameter of [ps], in order, one of its values *)
Definition assignment (ps : list (pname * list value)) (a : dict) : Prop :=
  Forall2 (fun pv av => fst av = fst pv /\ In (snd av) (snd pv)) ps a.

Definition size_product (ps : list (pname * list value)) : nat :=
  fold_right (fun pv n => (length (snd pv) * n)%nat) 1%nat ps.

Lemma combos_spec ps a : In a (combos ps) <-> assignment ps a.
Proof.
  revert a; induction ps as [|[p vs] r IH]; intros a; cbn.
  - split.
    + intros [<-|[]]. constructor.
    + intros H; inversion H; auto.
  - rewrite in_flat_map. split.
    + intros [v [Hv Ha]]. apply in_map_iff in Ha. destruct Ha as [a' [<- Ha']].
      constructor; [cbn; auto|]. now apply IH.
    + intros H. inversion H as [|pv av ps' a' [E1 E2] Hr]; subst.
      destruct av as [q w]. cbn in *. subst q. exists w. split; [exact E2|].
      apply in_map. now apply IH.
Qed.

Lemma flat_map_length_const {A B} (f : A -> list B) n l :
  (forall x, length (f x) = n) -> length (flat_map f l) = (length l * n)%nat.
Proof.
  intros H. induction l as [|x l IH]; cbn; [reflexivity|].
  rewrite app_length, H, IH. lia.
Qed.

Lemma combos_length ps : length (combos ps) = size_product ps.
Proof.
  induction ps as [|[p vs] r IH]; cbn; [reflexivity|].
  rewrite (flat_map_length_const _ (length (combos r))).
  - rewrite IH. reflexivity.
  - intros x. apply map_length.
Qed.

Lemma NoDup_map_cons {A} (x : A) l : NoDup l -> NoDup (map (cons x) l).
Proof.
  induction 1 as [|y l Hy Hnd IH]; cbn; constructor; [|exact IH].
  intros Hin. apply in_map_iff in Hin. destruct Hin as [z [E Hz]].
  inversion E; subst. contradiction.
Qed.

Lemma NoDup_app_iff_local {A} (a b : list A) :
  NoDup a -> NoDup b -> (forall x, In x a -> In x b -> False) -> NoDup (a ++ b).
Proof.
  induction 1 as [|x a Hx Hnd IH]; cbn; intros Hb Hd; [exact Hb|].
  constructor.
  - intros Hin. apply in_app_or in Hin. destruct Hin as [Hin|Hin]; [contradiction|].
    apply (Hd x); [now left|exact Hin].
  - apply IH; [exact Hb|]. intros y Hy. apply Hd. now right.
Qed.

Lemma combos_NoDup ps :
  (forall pv, In pv ps -> NoDup (snd pv)) -> NoDup (combos ps).
Proof.
  induction ps as [|[p vs] r IH]; intros H; cbn.
  - constructor; [intros []|constructor].
  - assert (Hr : NoDup (combos r)) by (apply IH; intros pv Hpv; apply H; now right).
    assert (Hvs : NoDup vs) by (apply (H (p, vs)); now left).
    clear IH H. induction Hvs as [|v vs Hv Hnd IHv]; cbn; [constructor|].
    apply NoDup_app_iff_local; [now apply NoDup_map_cons|exact IHv|].
    intros a Ha Hb. apply in_map_iff in Ha. destruct Ha as [a' [<- _]].
    apply in_flat_map in Hb. destruct Hb as [w [Hw Hb]].
    apply in_map_iff in Hb. destruct Hb as [a'' [E _]]. inversion E; subst. contradiction.
Qed.

(* ---------- collect ---------- *)
Lemma collect_app {A} (a b : list (res (list A))) :
  collect (a ++ b) =
  bind (collect a) (fun x => bind (collect b) (fun y => Ok (x ++ y))).
Proof.
  induction a as [|r a IH]; cbn.
  - destruct (collect b); reflexivity.
  - destruct r as [x|e]; [|reflexivity]. rewrite IH.
    destruct (collect a) as [xa|e]; cbn; [|reflexivity].
    destruct (collect b) as [xb|e]; cbn; [|reflexivity].
    now rewrite app_assoc.
Qed.

Lemma collect_flat_map {A B C} (f : B -> res (list C)) (g : A -> list B) l :
  collect (map f (flat_map g l)) = collect (map (fun x => collect (map f (g x))) l).
Proof.
  induction l as [|x l IH]; cbn; [reflexivity|].
  rewrite map_app, collect_app, IH.
  destruct (collect (map f (g x))); reflexivity.
Qed.

Lemma collect_ok {A B} (g : B -> res (list A)) l r :
  collect (map g l) = Ok r ->
  (forall a, In a l -> exists x, g a = Ok x) /\
  (forall s, In s r <-> exists a x, In a l /\ g a = Ok x /\ In s x).
Proof.
  revert r; induction l as [|b l IH]; cbn; intros r.
  - intros [= <-]. split; [intros a []|]. intros s; split; [intros []|intros (a & x & [] & _)].
  - destruct (g b) as [xb|e] eqn:Eb; [|discriminate].
    destruct (collect (map g l)) as [xl|e] eqn:El; cbn; [|discriminate].
    intros [= <-]. destruct (IH _ eq_refl) as [IH1 IH2]. split.
    + intros a [<-|Ha]; eauto.
    + intros s. rewrite in_app_iff, IH2. split.
      * intros [Hs|(a & x & Ha & Hg & Hx)]; [exists b, xb; auto|exists a, x; auto].
      * intros (a & x & [<-|Ha] & Hg & Hx).
        -- left. rewrite Eb in Hg. inversion Hg; subst; exact Hx.
        -- right. eauto.
Qed.

Lemma collect_length {A B} (g : B -> res (list A)) l r :
  collect (map g l) = Ok r ->
  (forall a x, In a l -> g a = Ok x -> length x = 1%nat) ->
  length r = length l.
Proof.
  revert r; induction l as [|b l IH]; cbn; intros r.
  - intros [= <-] _. reflexivity.
  - destruct (g b) as [xb|e] eqn:Eb; [|discriminate].
    destruct (collect (map g l)) as [xl|e] eqn:El; cbn; [|discriminate].
    intros [= <-] H. rewrite app_length, (H b xb (or_introl eq_refl) Eb), (IH xl eq_refl); [reflexivity|].
    intros a x Ha. apply H. now right.
Qed.

(* ---------- the nested loops of _expand_graph are the Cartesian product ---------- *)
Definition leaf (c : cfg) (l : line) (env : dict) : res (list text) :=
  bind (subst_line c env l) (fun s => Ok (match s with [] => [] | _ => [s] end)).

Lemma map_ext_in' {A B} (f g : A -> B) l : (forall x, f x = g x) -> map f l = map g l.
Proof. intros H. apply map_ext. exact H. Qed.

Lemma expand_rec_combos c l ps env :
  expand_rec c l ps env = collect (map (fun a => leaf c l (rev a ++ env)) (combos ps)).
Proof.
  revert env; induction ps as [|[p vs] r IH]; intros env.
  - cbn. unfold leaf. destruct (subst_line c env l) as [s|e]; cbn; [|reflexivity].
    now rewrite app_nil_r.
  - cbn [expand_rec combos]. rewrite collect_flat_map. f_equal.
    apply map_ext. intros v. rewrite IH, map_map. f_equal.
    apply map_ext. intros a. cbn [rev]. now rewrite <- app_assoc.
Qed.

(* ---------- first phase: which parameters are looped over ---------- *)
Lemma mem_nat_In x l : mem Nat.eqb x l = true <-> In x l.
Proof. apply mem_In. intros a b. rewrite Nat.eqb_eq. split; auto. Qed.

Definition add_used (p : pname) (u : list pname) : list pname :=
  if mem Nat.eqb p u then u else u ++ [p].

Lemma add_used_In p u q : In q (add_used p u) <-> In q u \/ q = p.
Proof.
  unfold add_used. destruct (mem Nat.eqb p u) eqn:E.
  - apply mem_nat_In in E. split; [auto|]. intros [H| ->]; auto.
  - rewrite in_app_iff. cbn. intuition.
Qed.

Lemma add_used_NoDup p u : NoDup u -> NoDup (add_used p u).
Proof.
  unfold add_used. destruct (mem Nat.eqb p u) eqn:E; [auto|]. intros H.
  apply NoDup_app_iff_local; [exact H|repeat constructor; intros []|].
  intros x Hx [<-|[]]. apply mem_nat_In in Hx. congruence.
Qed.

(* what the checks establish for one item *)
Definition item_ok (c : cfg) (it : item) : Prop :=
  exists vs, vals_of c (fst it) = Some vs /\
    match snd it with
    | SEq raw => in_iter (nval raw) vs = Ok true
    | _ => True
    end.

Lemma check_items_spec c its u used :
  check_items c its u = Ok used -> NoDup u ->
  NoDup used /\
  (forall p, In p used <-> In p u \/ In p (map fst its)) /\
  (forall it, In it its -> item_ok c it).
Proof.
  revert u; induction its as [|[p s] r IH]; cbn [check_items]; intros u.
  - intros [= <-] Hu. split; [exact Hu|]. split; [intros p; cbn; tauto|intros it []].
  - destruct (vals_of c p) as [vs|] eqn:Ev; [|discriminate].
    fold (add_used p u). intros H Hu.
    assert (Hnext : check_items c r (add_used p u) = Ok used /\ item_ok c (p, s)).
    { destruct s as [|raw|k]; cbn in H.
      - split; [exact H|]. exists vs; cbn; auto.
      - destruct (in_iter (nval raw) vs) as [b|e] eqn:Ei; cbn in H; [|discriminate].
        destruct b; [|discriminate]. split; [exact H|]. exists vs; cbn; auto.
      - split; [exact H|]. exists vs; cbn; auto. }
    destruct Hnext as [Hn Hok].
    destruct (IH _ Hn (add_used_NoDup p u Hu)) as (H1 & H2 & H3).
    split; [exact H1|]. split.
    + intros q. rewrite H2, add_used_In. cbn. intuition.
    + intros it [<-|Hit]; auto.
Qed.

Definition line_items (l : line) : list item :=
  flat_map (fun t => match t with TGrp its => its | TLit _ => [] end) l.

Lemma check_line_spec c l u used :
  check_line c l u = Ok used -> NoDup u ->
  NoDup used /\
  (forall p, In p used <-> In p u \/ In p (map fst (line_items l))) /\
  (forall it, In it (line_items l) -> item_ok c it).
Proof.
  revert u; induction l as [|t r IH]; cbn [check_line]; intros u.
  - intros [= <-] Hu. split; [exact Hu|]. split; [intros p; cbn; tauto|intros it []].
  - destruct t as [s|its].
    + intros H Hu. cbn [line_items flat_map app]. exact (IH _ H Hu).
    + destruct (check_items c its u) as [u'|e] eqn:Ei; cbn [bind]; [|discriminate].
      intros H Hu. destruct (check_items_spec _ _ _ _ Ei Hu) as (A1 & A2 & A3).
      destruct (IH _ H A1) as (B1 & B2 & B3).
      split; [exact B1|]. split.
      * intros p. rewrite B2, A2. cbn [line_items flat_map].
        fold (line_items r). rewrite map_app, in_app_iff. tauto.
      * intros it. cbn [line_items flat_map]. fold (line_items r).
        rewrite in_app_iff. intros [Hit|Hit]; auto.
Qed.

(* the parameters looped over all have a non-empty value list *)
Lemma used_params_defined c used :
  (forall p, In p used -> exists vs, vals_of c p = Some vs) ->
  forall pv, In pv (used_params c used) -> vals_of c (fst pv) = Some (snd pv).
Proof.
  intros H pv Hpv. unfold used_params in Hpv. apply in_map_iff in Hpv.
  destruct Hpv as [p [<- Hp]]. cbn. destruct (H p Hp) as [vs ->]. reflexivity.
Qed.

(* ---------- GraphExpander.expand = Cartesian product ---------- *)
Theorem graph_expand_cartesian c l ls :
  graph_expand c l = Ok ls ->
  exists used,
    check_line c l [] = Ok used /\ NoDup used /\
    (forall p, In p used <-> In p (map fst (line_items l))) /\
    (* every combination of values renders *)
    (forall a, assignment (used_params c used) a -> exists s, subst_line c (rev a) l = Ok s) /\
    (* the result is exactly the set of rendered combinations *)
    (forall s, In s ls <->
       s <> [] /\ exists a, assignment (used_params c used) a /\ subst_line c (rev a) l = Ok s).
Proof.
  unfold graph_expand. destruct (check_line c l []) as [used|e] eqn:Ec; cbn [bind]; [|discriminate].
  intros H. exists used. split; [reflexivity|].
  destruct (check_line_spec _ _ _ _ Ec (NoDup_nil _)) as (N1 & N2 & _).
  split; [exact N1|]. split; [intros p; rewrite N2; cbn; tauto|].
  rewrite expand_rec_combos in H. apply collect_ok in H. destruct H as [H1 H2]. split.
  - intros a Ha. apply combos_spec in Ha. destruct (H1 a Ha) as [x Hx].
    unfold leaf in Hx. rewrite app_nil_r in Hx.
    destruct (subst_line c (rev a) l) as [s|e]; [eauto|discriminate].
  - intros s. rewrite H2. split.
    + intros (a & x & Ha & Hx & Hs). unfold leaf in Hx. rewrite app_nil_r in Hx.
      destruct (subst_line c (rev a) l) as [s'|e] eqn:Es; cbn in Hx; [|discriminate].
      inversion Hx; subst x. destruct s' as [|ch s']; [destruct Hs|].
      destruct Hs as [<-|[]]. split; [discriminate|].
      exists a. split; [now apply combos_spec|exact Es].
    + intros (Hne & a & Ha & Es). exists a, [s]. split; [now apply combos_spec|].
      split; [|now left]. unfold leaf. rewrite app_nil_r, Es. cbn.
      destruct s; [congruence|reflexivity].
Qed.

(* one instance per combination: when no combination renders to the empty
   string the number of generated lines is the product of the sizes *)
Theorem graph_expand_size c l ls used :
  graph_expand c l = Ok ls -> check_line c l [] = Ok used ->
  (forall a, assignment (used_params c used) a -> subst_line c (rev a) l <> Ok []) ->
  length ls = size_product (used_params c used).
Proof.
  unfold graph_expand. intros H Ec Hne. rewrite Ec in H. cbn [bind] in H.
  rewrite expand_rec_combos in H. rewrite <- combos_length.
  apply (collect_length _ _ _ H). intros a x Ha Hx.
  unfold leaf in Hx. rewrite app_nil_r in Hx.
  destruct (subst_line c (rev a) l) as [s|e] eqn:Es; cbn in Hx; [|discriminate].
  inversion Hx; subst x. destruct s; [|reflexivity].
  exfalso. apply (Hne a); [now apply combos_spec|exact Es].
Qed.

(* ---------- fixed values ---------- *)
Lemma text_eqb_eq a b : text_eqb a b = true <-> a = b.
Proof. apply list_eqb_spec. intros x y. apply Z.eqb_eq. Qed.

Lemma value_eqb_eq a b : value_eqb a b = true <-> a = b.
Proof.
  destruct a as [x|x], b as [y|y]; cbn; try (split; [discriminate|intros E; inversion E]).
  - rewrite Z.eqb_eq. split; [intros ->; reflexivity|intros E; inversion E; auto].
  - rewrite text_eqb_eq. split; [intros ->; reflexivity|intros E; inversion E; auto].
Qed.

(* a fixed item contributes what the free item contributes when the loop
   value of the parameter is the fixed value *)
Lemma item_value_fixed c env p raw :
  item_value c env (p, SEq raw) = item_value c ((p, nval raw) :: env) (p, SFree).
Proof. cbn. now rewrite Nat.eqb_refl. Qed.

(* a value list is plain when none of its strings reads as an integer *)
Definition plain (vs : list value) : Prop :=
  forall s, In (VStr s) vs -> py_int s = None.

Lemma int_in_plain n vs : plain vs -> int_in n vs = Ok true -> In (VInt n) vs.
Proof.
  induction vs as [|v vs IH]; cbn; intros Hp; [discriminate|].
  destruct v as [k|s].
  - destruct (Z.eqb_spec k n) as [->|Hne]; [intros _; now left|].
    intros H. right. apply IH; [|exact H]. intros s Hs. apply Hp. now right.
  - rewrite (Hp s (or_introl eq_refl)). discriminate.
Qed.

Lemma in_iter_plain v vs : plain vs -> in_iter v vs = Ok true -> In v vs.
Proof.
  intros Hp. unfold in_iter. destruct (mem value_eqb v vs) eqn:Em.
  - intros _. apply (mem_In value_eqb value_eqb_eq). exact Em.
  - destruct v as [n|s]; [apply int_in_plain; exact Hp|discriminate].
Qed.

(* checked fixed values denote a member of the parameter's list (plain lists) *)
Theorem fixed_value_member c l u used p raw :
  check_line c l u = Ok used -> NoDup u -> In (p, SEq raw) (line_items l) ->
  exists vs, vals_of c p = Some vs /\ in_iter (nval raw) vs = Ok true /\
             (plain vs -> In (nval raw) vs).
Proof.
  intros H Hu Hin. destruct (check_line_spec _ _ _ _ H Hu) as (_ & _ & H3).
  destruct (H3 _ Hin) as [vs [Hv Hi]]. cbn in Hv, Hi.
  exists vs. split; [exact Hv|]. split; [exact Hi|]. intros Hp. now apply in_iter_plain.
Qed.

(* ---------- offsets ---------- *)
Lemma nthZ_none (l : list value) j : nthZ l j = None <-> j < 0 \/ lenZ l <= j.
Proof.
  unfold lenZ. revert j; induction l as [|x l IH]; intros j; cbn [nthZ length].
  - split; [intros _; lia|reflexivity].
  - destruct (Z.eqb_spec j 0) as [->|Hne].
    + split; [discriminate|]. rewrite Nat2Z.inj_succ. lia.
    + rewrite IH. rewrite Nat2Z.inj_succ. lia.
Qed.

Lemma index_of_nth v l i0 i :
  index_of v l i0 = Some i -> i0 <= i /\ nthZ l (i - i0) = Some v.
Proof.
  revert i0; induction l as [|x l IH]; intros i0; cbn; [discriminate|].
  destruct (value_eqb x v) eqn:E.
  - intros [= <-]. apply value_eqb_eq in E. subst. rewrite Z.sub_diag. cbn. split; [lia|reflexivity].
  - intros H. destruct (IH _ H) as [Hle Hn]. split; [lia|].
    destruct (Z.eqb_spec (i - i0) 0) as [E0|_]; [lia|].
    replace (i - i0 - 1) with (i - (i0 + 1)) by lia. exact Hn.
Qed.

Lemma nthZ_In (l : list value) j v : nthZ l j = Some v -> In v l.
Proof.
  revert j; induction l as [|y l IH]; intros j; cbn; [discriminate|].
  destruct (j =? 0); [intros [= ->]; now left|]. intros H. right. eauto.
Qed.

Lemma index_of_NoDup v l i0 j :
  NoDup l -> nthZ l j = Some v -> index_of v l i0 = Some (i0 + j).
Proof.
  intros Hnd. revert i0 j; induction Hnd as [|x l Hx Hnd IH]; intros i0 j; cbn; [discriminate|].
  destruct (Z.eqb_spec j 0) as [->|Hne].
  - intros [= ->]. assert (E : value_eqb v v = true) by now apply value_eqb_eq.
    rewrite E. f_equal. lia.
  - intros Hn. destruct (value_eqb x v) eqn:E.
    + apply value_eqb_eq in E. subst x. exfalso. apply Hx. eapply nthZ_In; eauto.
    + rewrite (IH (i0 + 1) (j - 1) Hn). f_equal. lia.
Qed.

(* <p+k> with the loop at the i-th value denotes the (i+k)-th value, or the
   _REMOVE marker when there is no such value *)
Theorem offset_semantics c env p k v pl i :
  assoc Nat.eqb p env = Some v -> vals_of c p = Some pl ->
  NoDup pl -> nthZ pl i = Some v ->
  item_value c env (p, SOff k) =
    Ok (match nthZ pl (i + k) with Some w => w | None => REMOVE end).
Proof.
  intros Ha Hv Hnd Hn. cbn. rewrite Ha, Hv.
  rewrite (index_of_NoDup v pl 0 i Hnd Hn). cbn [Z.add].
  destruct ((0 <=? i + k) && (i + k <? lenZ pl)) eqn:Er.
  - destruct (nthZ pl (i + k)); reflexivity.
  - assert (Hnone : nthZ pl (i + k) = None) by (apply nthZ_none; lia).
    now rewrite Hnone.
Qed.

(* ---------- NameExpander ---------- *)
Definition upd_all (spec a : dict) : dict :=
  fold_left (fun d pv => upd d (fst pv) (snd pv)) a spec.
Definition name_leaf (tm : template) (d : dict) : res (list (text * dict)) :=
  bind (apply_tmpl tm d) (fun s => Ok [(s, d)]).

Lemma expand_name_rec_combos tm ps spec :
  expand_name_rec tm ps spec =
  collect (map (fun a => name_leaf tm (upd_all spec a)) (combos ps)).
Proof.
  revert spec; induction ps as [|[p vs] r IH]; intros spec.
  - cbn. unfold name_leaf. destruct (apply_tmpl tm spec); reflexivity.
  - cbn [expand_name_rec combos]. rewrite collect_flat_map. f_equal.
    apply map_ext. intros v. rewrite IH, map_map. reflexivity.
Qed.

Lemma assoc_upd_same d p v : assoc Nat.eqb p (upd d p v) = Some v.
Proof.
  induction d as [|[q w] d IH]; cbn; [now rewrite Nat.eqb_refl|].
  destruct (Nat.eqb p q) eqn:E; cbn; rewrite E; [reflexivity|exact IH].
Qed.

Lemma assoc_upd_other d p q v : q <> p -> assoc Nat.eqb q (upd d p v) = assoc Nat.eqb q d.
Proof.
  intros Hne. induction d as [|[r w] d IH]; cbn.
  - destruct (Nat.eqb_spec q p); [congruence|reflexivity].
  - destruct (Nat.eqb_spec p r) as [->|Hpr]; cbn.
    + destruct (Nat.eqb_spec q r); [congruence|reflexivity].
    + destruct (Nat.eqb q r); [reflexivity|exact IH].
Qed.

(* a fixed parameter that is not looped over keeps its value in every instance *)
Lemma upd_all_other spec a q :
  ~ In q (map fst a) -> assoc Nat.eqb q (upd_all spec a) = assoc Nat.eqb q spec.
Proof.
  revert spec; induction a as [|[p v] a IH]; intros spec Hq; cbn; [reflexivity|].
  unfold upd_all in IH. rewrite IH.
  - apply assoc_upd_other. intros ->. apply Hq. now left.
  - intros H. apply Hq. now right.
Qed.

(* a looped parameter has its loop value in the instance *)
Lemma upd_all_bound spec a p v :
  NoDup (map fst a) -> In (p, v) a -> assoc Nat.eqb p (upd_all spec a) = Some v.
Proof.
  revert spec; induction a as [|[p0 v0] a IH]; intros spec Hnd Hin; [destruct Hin|].
  cbn in Hnd. inversion Hnd as [|? ? Hp0 Hnd']; subst.
  cbn. fold (upd_all (upd spec p0 v0) a). destruct Hin as [E|Hin].
  - inversion E; subst. rewrite upd_all_other; [apply assoc_upd_same|exact Hp0].
  - apply IH; assumption.
Qed.

Lemma assignment_names ps a : assignment ps a -> map fst a = map fst ps.
Proof. induction 1 as [|pv av ps a [E _] _ IH]; cbn; [reflexivity|]. now rewrite E, IH. Qed.

Theorem name_expand1_cartesian c l r :
  has_group l = true -> name_expand1 c l = Ok r ->
  exists tm spec used,
    name_scan c l [] [] [] = Ok (tm, spec, used) /\
    length r = size_product used /\
    (forall a, assignment used a -> exists s, apply_tmpl tm (upd_all spec a) = Ok s) /\
    (forall s d, In (s, d) r <->
       exists a, assignment used a /\ d = upd_all spec a /\ apply_tmpl tm d = Ok s).
Proof.
  intros Hg. unfold name_expand1. rewrite Hg.
  destruct (name_scan c l [] [] []) as [[[tm spec] used]|e] eqn:Es; cbn [bind]; [|discriminate].
  intros H. exists tm, spec, used. split; [reflexivity|].
  rewrite expand_name_rec_combos in H. split; [|split].
  - rewrite <- combos_length. apply (collect_length _ _ _ H).
    intros a x _ Hx. unfold name_leaf in Hx.
    destruct (apply_tmpl tm (upd_all spec a)); cbn in Hx; [|discriminate].
    inversion Hx; reflexivity.
  - apply collect_ok in H. destruct H as [H1 _]. intros a Ha.
    apply combos_spec in Ha. destruct (H1 a Ha) as [x Hx]. unfold name_leaf in Hx.
    destruct (apply_tmpl tm (upd_all spec a)); [eauto|discriminate].
  - apply collect_ok in H. destruct H as [_ H2]. intros s d. rewrite H2. split.
    + intros (a & x & Ha & Hx & Hs). unfold name_leaf in Hx.
      destruct (apply_tmpl tm (upd_all spec a)) as [s'|e] eqn:Et; cbn in Hx; [|discriminate].
      inversion Hx; subst x. destruct Hs as [E|[]]. inversion E; subst.
      exists a. split; [now apply combos_spec|]. split; [reflexivity|exact Et].
    + intros (a & Ha & -> & Et). exists a, [(s, upd_all spec a)].
      split; [now apply combos_spec|]. split; [|now left].
      unfold name_leaf. now rewrite Et.
Qed.

(* ---------- removal of out-of-range nodes ---------- *)
Definition two_leading_marked (e : expr) : Prop :=
  fst (fst e) = true /\
  match snd e with (_, n2) :: _ => fst n2 = true | [] => False end.

Lemma keep_rest_nodes r :
  map (fun on : Z * node => snd (snd on)) (keep_rest r) =
  map snd (filter (fun n : node => negb (fst n)) (map snd r)).
Proof.
  unfold keep_rest. induction r as [|[op [m t]] r IH]; cbn; [reflexivity|].
  destruct m; cbn; [exact IH|]. f_equal. exact IH.
Qed.

Theorem drop_exact e :
  ~ two_leading_marked e -> expr_nodes (drop_nodes e) = drop_spec e.
Proof.
  destruct e as [[m1 t1] rest]. unfold two_leading_marked, drop_nodes, drop_spec. cbn [fst snd].
  intros Hn. destruct m1; cbn.
  - destruct rest as [|[op [m2 t2]] rest']; cbn; [reflexivity|].
    destruct m2; [exfalso; apply Hn; cbn; auto|]. cbn. f_equal. apply keep_rest_nodes.
  - f_equal. apply keep_rest_nodes.
Qed.

(* the marked second node survives in exactly the excluded case *)
Theorem drop_two_leading e :
  two_leading_marked e ->
  exists n2, fst n2 = true /\ In (snd n2) (expr_nodes (drop_nodes e)).
Proof.
  destruct e as [[m1 t1] rest]. unfold two_leading_marked. cbn [fst snd].
  intros [-> H]. destruct rest as [|[op n2] rest']; [destruct H|].
  exists n2. split; [exact H|]. cbn. now left.
Qed.
