(* Proofs/IsoSeqProofs.v — lemmas about Model/IsoSeq.v *)
From Coq Require Import List ZArith Bool Lia Sorted.
From Cylc Require Import Base.Util Model.IsoSeq.
Import ListNotations.
Local Open Scope Z_scope.

(* ------------------------------------------------------------------ *)
(* generic list facts                                                  *)
(* ------------------------------------------------------------------ *)
Lemma find_app {A} (f : A -> bool) l1 l2 :
  find f (l1 ++ l2) = match find f l1 with Some x => Some x | None => find f l2 end.
Proof. induction l1 as [|a l1 IH]; cbn; [reflexivity|]. destruct (f a); auto. Qed.

Lemma find_none_all {A} (f : A -> bool) l :
  (forall x, In x l -> f x = false) -> find f l = None.
Proof.
  induction l as [|a l IH]; cbn; intros H; [reflexivity|].
  rewrite (H a (or_introl eq_refl)). apply IH. intros x Hx. apply H. now right.
Qed.

Lemma find_ext_in {A} (f g : A -> bool) l :
  (forall x, In x l -> f x = g x) -> find f l = find g l.
Proof.
  induction l as [|a l IH]; cbn; intros H; [reflexivity|].
  rewrite (H a (or_introl eq_refl)). destruct (g a); [reflexivity|].
  apply IH. intros x Hx. apply H. now right.
Qed.

Lemma find_some_split {A} (f : A -> bool) l x :
  find f l = Some x ->
  exists m r, l = m ++ x :: r /\ f x = true /\ (forall y, In y m -> f y = false).
Proof.
  induction l as [|a l IH]; cbn; [discriminate|].
  destruct (f a) eqn:E.
  - intros [= <-]. exists [], l. cbn. repeat split; auto. intros y [].
  - intros H. destruct (IH H) as [m [r [-> [Hx Hm]]]].
    exists (a :: m), r. cbn. repeat split; auto.
    intros y [<-|Hy]; auto.
Qed.

Lemma find_none_inv {A} (f : A -> bool) l :
  find f l = None -> forall x, In x l -> f x = false.
Proof. intros H x Hx. exact (find_none _ _ H x Hx). Qed.

Lemma mem_Z_In p l : mem Z.eqb p l = true <-> In p l.
Proof. apply mem_In. intros a b. apply Z.eqb_eq. Qed.

Lemma mem_Z_false p l : mem Z.eqb p l = false <-> ~ In p l.
Proof. rewrite <- mem_Z_In. destruct (mem Z.eqb p l); split; congruence. Qed.

Lemma In_split_Z (p : Z) l : In p l -> exists l1 l2, l = l1 ++ p :: l2.
Proof. apply in_split. Qed.

Lemma assoc_Z_In {V} k (l : list (Z * V)) v : assoc Z.eqb k l = Some v -> In (k, v) l.
Proof.
  induction l as [|[k' v'] l IH]; cbn; [discriminate|].
  destruct (Z.eqb_spec k k') as [->|Hne].
  - intros [= ->]. now left.
  - intros H. right. auto.
Qed.

Lemma In_remove_key {V} k (l : list (Z * V)) x : In x (remove_key k l) -> In x l.
Proof.
  induction l as [|[k' v'] l IH]; cbn; [tauto|].
  destruct (k =? k'); [now right|]. intros [<-|H]; [now left|right; auto].
Qed.

Lemma In_firstn {A} n (l : list A) x : In x (firstn n l) -> In x l.
Proof.
  revert l; induction n as [|n IH]; intros [|a l]; cbn; try tauto.
  intros [<-|H]; [now left|right; auto].
Qed.

Lemma In_tl {A} (l : list A) x : In x (tl l) -> In x l.
Proof. destruct l; cbn; auto. Qed.

(* ------------------------------------------------------------------ *)
(* strictly increasing lists                                           *)
(* ------------------------------------------------------------------ *)
Lemma sorted_split l1 (a : Z) l2 :
  StronglySorted Z.lt (l1 ++ a :: l2) ->
  (forall x, In x l1 -> x < a) /\ (forall y, In y l2 -> a < y) /\
  StronglySorted Z.lt l1 /\ StronglySorted Z.lt l2.
Proof.
  induction l1 as [|b l1 IH]; cbn; intros H.
  - inversion H as [|? ? Hs Hf]; subst. rewrite Forall_forall in Hf.
    repeat split; auto; [intros x []|constructor].
  - inversion H as [|? ? Hs Hf]; subst. destruct (IH Hs) as [H1 [H2 [H3 H4]]].
    rewrite Forall_forall in Hf. repeat split; auto.
    + intros x [<-|Hx]; [apply Hf, in_or_app; right; now left|auto].
    + constructor; [exact H3|]. rewrite Forall_forall. intros x Hx. apply Hf, in_or_app. now left.
Qed.

Lemma sorted_le_last l (d : Z) : forall x, StronglySorted Z.lt l -> In x l -> x <= last l d.
Proof.
  induction l as [|a l IH]; [intros x _ []|].
  intros x H Hx. inversion H as [|? ? Hs Hf]; subst. rewrite Forall_forall in Hf.
  destruct l as [|b l]; [destruct Hx as [<-|[]]; cbn; lia|].
  change (last (a :: b :: l) d) with (last (b :: l) d).
  destruct Hx as [<-|Hx]; [|auto].
  pose proof (IH b Hs (or_introl eq_refl)). specialize (Hf b (or_introl eq_refl)). lia.
Qed.

Lemma last_snoc (l : list Z) a d : last (l ++ [a]) d = a.
Proof. apply last_last. Qed.

Section SeqProofs.
  Variable enum : list Z.
  Variable complete : bool.
  Variable bounded : bool.
  Variables rnext rprev : Z -> option Z.
  Variable rvalid : Z -> bool.
  Variable excl : Z -> bool.
  Variable N : nat.
  Variable fuel0 : nat.

  Definition good (e : Z) : bool := negb (excl e).

  (* ---- the cache-free, enumeration-level definitions ---- *)
  Definition spec_on (p : Z) : bool := mem Z.eqb p enum && good p.
  Definition spec_next (p : Z) : option Z := find (fun e => (p <? e) && good e) enum.
  Definition spec_first (p : Z) : option Z := find (fun e => (p <=? e) && good e) enum.
  Definition spec_prev (p : Z) : option Z := find (fun e => (e <? p) && good e) (rev enum).
  Definition spec_start : option Z := find good enum.
  Definition spec_stop : option Z := if bounded then find good (rev enum) else None.

  (* ---- what is assumed of the TimeRecurrence object ---- *)
  Hypothesis H_sorted : StronglySorted Z.lt enum.
  Hypothesis H_next : forall l1 a b l2, enum = l1 ++ a :: b :: l2 -> rnext a = Some b.
  Hypothesis H_last : forall l1 a, enum = l1 ++ [a] ->
    if complete then rnext a = None else exists x, rnext a = Some x /\ a < x.
  Hypothesis H_valid : forall p, in_window enum complete p = true -> rvalid p = mem Z.eqb p enum.

  Notation gnpos := (gnpos enum complete rnext excl).
  Notation walk_lt := (walk_lt enum complete rnext excl fuel0).
  Notation walk_le := (walk_le enum complete rnext excl fuel0).
  Notation in_window := (in_window enum complete).

  Lemma in_enum_window e : In e enum -> in_window e = true.
  Proof.
    intros H. unfold in_window, IsoSeq.in_window, horizon. apply orb_true_iff. right.
    apply Z.leb_le. now apply sorted_le_last.
  Qed.

  Lemma split_facts l1 a l2 :
    enum = l1 ++ a :: l2 ->
    (forall x, In x l1 -> x < a) /\ (forall y, In y l2 -> a < y).
  Proof.
    intros E. pose proof H_sorted as H. rewrite E in H.
    destruct (sorted_split _ _ _ H) as [H1 [H2 _]]. auto.
  Qed.

  (* ---- get_next_point_on_sequence from a point of the recurrence ---- *)
  Lemma gnpos_spec fuel : forall l1 a l2 r,
    enum = l1 ++ a :: l2 -> gnpos fuel a = Ok r -> r = find good l2.
  Proof.
    induction fuel as [|f IH]; intros l1 a l2 r E; cbn [IsoSeq.gnpos]; [discriminate|].
    unfold rnext_g. destruct l2 as [|b l2].
    - pose proof (H_last l1 a E) as HL.
      destruct (bool_dec complete true) as [Ec|Ec].
      + rewrite Ec in HL. rewrite HL. cbn. now intros [= <-].
      + apply not_true_is_false in Ec. rewrite Ec in HL. destruct HL as [x [-> Hx]].
        assert (Hw : in_window x = false).
        { unfold IsoSeq.in_window, horizon. rewrite Ec, E, last_snoc. cbn. apply Z.leb_gt. lia. }
        rewrite Hw. cbn. discriminate.
    - rewrite (H_next l1 a b l2 E).
      assert (Hb : In b enum) by (rewrite E; apply in_or_app; right; right; now left).
      rewrite (in_enum_window b Hb). cbn [bind].
      destruct (split_facts l1 a (b :: l2) E) as [_ H2].
      assert (a < b) by (apply H2; now left).
      destruct (Z.eqb_spec b a); [lia|].
      cbn [find]. unfold good at 1. destruct (excl b) eqn:Eb; cbn [negb].
      + apply (IH (l1 ++ [a]) b l2 r). rewrite E, <- app_assoc. reflexivity.
      + now intros [= <-].
  Qed.

  Lemma find_good_sub l2 (f : Z -> bool) :
    find good l2 = None -> find (fun e => f e && good e) l2 = None.
  Proof.
    intros H. apply find_none_all. intros x Hx.
    rewrite (find_none_inv _ _ H x Hx). apply andb_false_r.
  Qed.

  (* ---- the `while next_point <= point or excluded` loop of get_next_point ---- *)
  Lemma walk_le_spec fuel : forall l1 cur l2 p r,
    enum = l1 ++ cur :: l2 ->
    walk_le fuel cur (excl cur) p = Ok r ->
    r = if (cur <=? p) || excl cur then find (fun e => (p <? e) && good e) l2 else Some cur.
  Proof.
    induction fuel as [|f IH]; intros l1 cur l2 p r E; cbn [IsoSeq.walk_le]; [discriminate|].
    destruct ((cur <=? p) || excl cur); [|now intros [= <-]].
    destruct (gnpos fuel0 cur) as [o|e] eqn:Eg; cbn [bind]; [|discriminate].
    pose proof (gnpos_spec _ _ _ _ _ E Eg) as Ho. subst o.
    destruct (find good l2) as [n|] eqn:Ef.
    - destruct (find_some_split _ _ _ Ef) as [m [l2' [-> [Hn Hm]]]].
      intros Hw.
      assert (E' : enum = (l1 ++ cur :: m) ++ n :: l2') by (rewrite E, <- app_assoc; reflexivity).
      pose proof (IH _ _ _ _ _ E' Hw) as ->.
      unfold good in Hn. apply negb_true_iff in Hn. rewrite Hn, orb_false_r.
      rewrite find_app.
      rewrite (find_none_all _ m) by (intros y Hy; rewrite (Hm y Hy); apply andb_false_r).
      cbn [find]. unfold good at 2. rewrite Hn. cbn [negb]. rewrite andb_true_r.
      destruct (Z.leb_spec n p); destruct (Z.ltb_spec p n); try lia; reflexivity.
    - intros [= <-]. symmetry. now apply find_good_sub.
  Qed.

  (* ---- the `while next_point < point` loop of _is_on_sequence ---- *)
  Lemma walk_lt_spec fuel : forall l1 cur l2 p r,
    enum = l1 ++ cur :: l2 ->
    walk_lt fuel cur p = Ok r ->
    r = if cur <? p then find (fun e => (p <=? e) && good e) l2 else Some cur.
  Proof.
    induction fuel as [|f IH]; intros l1 cur l2 p r E; cbn [IsoSeq.walk_lt]; [discriminate|].
    destruct (cur <? p); [|now intros [= <-]].
    destruct (gnpos fuel0 cur) as [o|e] eqn:Eg; cbn [bind]; [|discriminate].
    pose proof (gnpos_spec _ _ _ _ _ E Eg) as Ho. subst o.
    destruct (find good l2) as [n|] eqn:Ef.
    - destruct (find_some_split _ _ _ Ef) as [m [l2' [-> [Hn Hm]]]].
      intros Hw.
      assert (E' : enum = (l1 ++ cur :: m) ++ n :: l2') by (rewrite E, <- app_assoc; reflexivity).
      pose proof (IH _ _ _ _ _ E' Hw) as ->.
      rewrite find_app.
      rewrite (find_none_all _ m) by (intros y Hy; rewrite (Hm y Hy); apply andb_false_r).
      cbn [find]. rewrite Hn, andb_true_r.
      destruct (Z.ltb_spec n p); destruct (Z.leb_spec p n); try lia; reflexivity.
    - intros [= <-]. symmetry. now apply find_good_sub.
  Qed.

  (* spec_next seen from a point of the recurrence that is <= p *)
  Lemma spec_next_from l1 a l2 p :
    enum = l1 ++ a :: l2 -> a <= p ->
    spec_next p = find (fun e => (p <? e) && good e) l2.
  Proof.
    intros E Hap. unfold spec_next. rewrite E, find_app.
    destruct (split_facts _ _ _ E) as [H1 _].
    rewrite find_none_all.
    - cbn [find]. destruct (Z.ltb_spec p a); [lia|]. reflexivity.
    - intros x Hx. specialize (H1 x Hx). destruct (Z.ltb_spec p x); [lia|reflexivity].
  Qed.

  Lemma spec_next_good p n : spec_next p = Some n -> In n enum /\ good n = true /\ p < n.
  Proof.
    intros H. apply find_some in H. destruct H as [H1 H2].
    apply andb_true_iff in H2. destruct H2 as [H2 H3]. apply Z.ltb_lt in H2. auto.
  Qed.

  (* ---- the invariant of the cached state ---- *)
  Record Inv (s : st) : Prop := {
    inv_first : forall k v, In (k, v) (c_first s) -> spec_first k = Some v;
    inv_next : forall k v, In (k, v) (c_next s) -> spec_next k = Some v;
    inv_valid : forall k b, In (k, b) (c_valid s) -> b = spec_on k;
    inv_recent : forall v, In v (c_recent s) -> In v enum /\ good v = true;
    inv_lru : forall k b, In (k, b) (c_lru s) -> b = spec_on k
  }.

  Lemma Inv_st0 : Inv st0.
  Proof. clear. constructor; cbn; tauto. Qed.

  Definition recent_ok (vs : list Z) : Prop := forall v, In v vs -> In v enum /\ good v = true.

  Lemma recent_ok_rev vs : recent_ok vs -> recent_ok (rev vs).
  Proof. intros H v Hv. apply H. now apply in_rev. Qed.

  (* ---- _is_on_sequence ---- *)
  Lemma on_recent_spec vs p b :
    recent_ok vs -> in_window p = true ->
    on_recent enum complete rnext rvalid excl fuel0 vs p = Ok b -> b = mem Z.eqb p enum.
  Proof.
    intros Hvs Hw. induction vs as [|v vs IH]; cbn [on_recent].
    - intros [= <-]. now apply H_valid.
    - assert (Hvs' : recent_ok vs) by (intros x Hx; apply Hvs; now right).
      destruct (Hvs v (or_introl eq_refl)) as [Hv _].
      destruct (Z.eqb_spec v p) as [->|Hne].
      + intros [= <-]. symmetry. now apply mem_Z_In.
      + destruct (p <? v); [now apply IH|].
        destruct (walk_lt fuel0 v p) as [o|e] eqn:Ew; cbn [bind]; [|discriminate].
        destruct o as [n|]; [|now apply IH].
        destruct (Z.eqb_spec n p) as [->|Hnp]; [|now apply IH].
        intros [= <-]. symmetry. apply mem_Z_In.
        destruct (In_split_Z _ _ Hv) as [l1 [l2 E]].
        pose proof (walk_lt_spec _ _ _ _ _ _ E Ew) as Hr.
        destruct (v <? p).
        * symmetry in Hr. apply find_some in Hr. destruct Hr as [Hin _].
          rewrite E. apply in_or_app. right. now right.
        * injection Hr as ->. congruence.
  Qed.

  Lemma is_on_raw_spec s p b :
    Inv s -> in_window p = true ->
    is_on_raw enum complete rnext rvalid excl fuel0 s p = Ok b -> b = spec_on p.
  Proof.
    intros HI Hw. unfold is_on_raw, spec_on, good. destruct (excl p).
    - intros [= <-]. now rewrite andb_false_r.
    - intros H. rewrite andb_true_r. eapply on_recent_spec; eauto.
      apply recent_ok_rev. exact (inv_recent _ HI).
  Qed.

  Lemma is_on_spec s p b s' :
    Inv s -> in_window p = true ->
    is_on enum complete rnext rvalid excl N fuel0 s p = Ok (b, s') -> b = spec_on p /\ Inv s'.
  Proof.
    intros HI Hw. unfold is_on. destruct N as [|n].
    - destruct (is_on_raw _ _ _ _ _ _ s p) as [b0|e] eqn:Er; cbn [bind]; [|discriminate].
      intros [= <- <-]. split; [eapply is_on_raw_spec; eauto|exact HI].
    - destruct (assoc Z.eqb p (c_lru s)) as [b0|] eqn:Ea.
      + intros [= <- <-]. pose proof (inv_lru _ HI _ _ (assoc_Z_In _ _ _ Ea)) as Hb.
        split; [exact Hb|]. destruct HI. constructor; cbn; auto.
        intros k b [[= <- <-]|Hin]; [exact Hb|]. apply In_remove_key in Hin. auto.
      + destruct (is_on_raw _ _ _ _ _ _ s p) as [b0|e] eqn:Er; cbn [bind]; [|discriminate].
        intros [= <- <-]. pose proof (is_on_raw_spec _ _ _ HI Hw Er) as Hb.
        split; [exact Hb|]. destruct HI. constructor; cbn [c_first c_next c_valid c_recent c_lru]; auto.
        intros k b Hin. destruct Hin as [[= <- <-]|Hin]; auto. apply In_firstn in Hin. auto.
  Qed.

  Lemma dict_put_In {V} (d : list (Z * V)) k v x :
    In x (dict_put N d k v) -> x = (k, v) \/ In x d.
  Proof.
    unfold dict_put. intros [<-|H]; [now left|right].
    destruct (N <? length d)%nat; [now apply In_tl|exact H].
  Qed.

  (* ---- is_valid ---- *)
  Lemma is_valid_spec s p b s' :
    Inv s -> in_window p = true ->
    is_valid enum complete rnext rvalid excl N fuel0 s p = Ok (b, s') -> b = spec_on p /\ Inv s'.
  Proof.
    intros HI Hw. unfold is_valid.
    destruct (assoc Z.eqb p (c_valid s)) as [b0|] eqn:Ea.
    - intros [= <- <-]. split; [|exact HI]. exact (inv_valid _ HI _ _ (assoc_Z_In _ _ _ Ea)).
    - destruct (is_on _ _ _ _ _ _ _ s p) as [[b0 s0]|e] eqn:Eo; cbn [bind]; [|discriminate].
      intros [= <- <-]. destruct (is_on_spec _ _ _ _ HI Hw Eo) as [Hb HI0].
      split; [exact Hb|]. destruct HI0. constructor; cbn [c_first c_next c_valid c_recent c_lru]; auto.
      intros k b Hin. apply dict_put_In in Hin. destruct Hin as [[= -> ->]|Hin]; auto.
  Qed.

  (* ---- get_next_point ---- *)
  Lemma next_recent_spec vs p n :
    recent_ok vs ->
    next_recent enum complete rnext excl fuel0 vs p = Ok (Some n) -> spec_next p = Some n.
  Proof.
    intros Hvs. induction vs as [|v vs IH]; cbn [next_recent]; [discriminate|].
    assert (Hvs' : recent_ok vs) by (intros x Hx; apply Hvs; now right).
    destruct (Hvs v (or_introl eq_refl)) as [Hv Hg].
    destruct (Z.leb_spec p v); [now apply IH|].
    unfold good in Hg. apply negb_true_iff in Hg.
    destruct (IsoSeq.walk_le enum complete rnext excl fuel0 fuel0 v false p) as [o|e] eqn:Ew; cbn [bind]; [|discriminate].
    destruct o as [n'|]; [|now apply IH].
    intros [= ->].
    destruct (In_split_Z _ _ Hv) as [l1 [l2 E]].
    rewrite <- Hg in Ew. pose proof (walk_le_spec _ _ _ _ _ _ E Ew) as Hr.
    destruct (Z.leb_spec v p); [|lia]. cbn [orb] in Hr.
    rewrite (spec_next_from _ _ _ p E) by lia. now symmetry.
  Qed.

  Lemma scan_next_spec l p r :
    scan_next complete excl l p = Ok r -> r = find (fun e => (p <? e) && good e) l.
  Proof.
    induction l as [|e l IH]; cbn [scan_next find].
    - unfold at_end. destruct complete; [now intros [= <-]|discriminate].
    - unfold good at 1. destruct ((p <? e) && negb (excl e)); [now intros [= <-]|exact IH].
  Qed.

  Lemma check_and_cache_spec s p n s' :
    Inv s -> spec_next p = Some n ->
    check_and_cache N s p n = Ok s' -> Inv s'.
  Proof.
    intros HI Hn. unfold check_and_cache. destruct (n =? p); [discriminate|].
    destruct (spec_next_good _ _ Hn) as [Hin [Hg _]].
    set (pop := negb (Nat.eqb N 0) && (N <? length (dict_put N (c_next s) p n))%nat).
    assert (Hgoal : forall rc, (forall v, In v rc -> In v (c_recent s)) ->
      Inv {| c_first := c_first s; c_next := dict_put N (c_next s) p n; c_valid := c_valid s;
             c_recent := rc ++ [n]; c_lru := c_lru s |}).
    { intros rc Hrc. destruct HI. constructor; cbn [c_first c_next c_valid c_recent c_lru]; auto.
      - intros k v H. apply dict_put_In in H. destruct H as [[= -> ->]|H]; auto.
      - intros v H. apply in_app_or in H. destruct H as [H|[<-|[]]]; auto. }
    destruct pop.
    - destruct (c_recent s) as [|r0 rc] eqn:Erc; [discriminate|].
      intros [= <-]. apply Hgoal. cbn. intros v Hv. now right.
    - destruct (c_recent s) as [|r0 rc] eqn:Erc; intros [= <-];
        [apply (Hgoal [])|apply (Hgoal (r0 :: rc))]; auto.
  Qed.

  Lemma get_next_spec s p o s' :
    Inv s ->
    get_next enum complete rnext excl N fuel0 s p = Ok (o, s') -> o = spec_next p /\ Inv s'.
  Proof.
    intros HI. unfold get_next.
    destruct (assoc Z.eqb p (c_next s)) as [n|] eqn:Ea.
    - intros [= <- <-]. split; [|exact HI]. symmetry. exact (inv_next _ HI _ _ (assoc_Z_In _ _ _ Ea)).
    - destruct (next_recent _ _ _ _ _ (rev (c_recent s)) p) as [o1|e] eqn:E1; cbn [bind]; [|discriminate].
      destruct o1 as [n|].
      + assert (Hn : spec_next p = Some n).
        { eapply next_recent_spec; [|exact E1]. apply recent_ok_rev. exact (inv_recent _ HI). }
        destruct (check_and_cache N s p n) as [s1|e] eqn:Ec; cbn [bind]; [|discriminate].
        intros [= <- <-]. split; [now symmetry|]. eapply check_and_cache_spec; eauto.
      + destruct (scan_next complete excl enum p) as [o2|e] eqn:E2; cbn [bind]; [|discriminate].
        pose proof (scan_next_spec _ _ _ E2) as Ho2. fold (spec_next p) in Ho2.
        destruct o2 as [n|].
        * destruct (check_and_cache N s p n) as [s1|e] eqn:Ec; cbn [bind]; [|discriminate].
          intros [= <- <-]. split; [exact Ho2|]. eapply check_and_cache_spec; eauto.
        * intros [= <- <-]. split; [exact Ho2|exact HI].
  Qed.

  (* ---- get_first_point ---- *)
  Lemma scan_first_spec l p r :
    scan_first complete l p = Ok r ->
    match r with
    | Some e => exists l1 l2, l = l1 ++ e :: l2 /\ (forall x, In x l1 -> x < p) /\ p <= e
    | None => forall x, In x l -> x < p
    end.
  Proof.
    revert r; induction l as [|e l IH]; intros r; cbn [scan_first].
    - unfold at_end. destruct complete; [|discriminate]. intros [= <-]. intros x [].
    - destruct (Z.leb_spec p e).
      + intros [= <-]. exists [], l. repeat split; auto. intros x [].
      + intros H'. specialize (IH r H'). destruct r as [e'|].
        * destruct IH as [l1 [l2 [-> [H1 H2]]]]. exists (e :: l1), l2. repeat split; auto.
          intros x [<-|Hx]; auto.
        * intros x [<-|Hx]; auto.
  Qed.

  Lemma get_first_spec s p o s' :
    Inv s ->
    get_first enum complete rnext excl N fuel0 s p = Ok (o, s') -> o = spec_first p /\ Inv s'.
  Proof.
    intros HI. unfold get_first.
    destruct (assoc Z.eqb p (c_first s)) as [f|] eqn:Ea.
    - intros [= <- <-]. split; [|exact HI]. symmetry. exact (inv_first _ HI _ _ (assoc_Z_In _ _ _ Ea)).
    - destruct (scan_first complete enum p) as [o1|e] eqn:E1; cbn [bind]; [|discriminate].
      pose proof (scan_first_spec _ _ _ E1) as H1.
      destruct o1 as [e|].
      + destruct H1 as [l1 [l2 [E [Hl1 Hpe]]]].
        assert (Hspec : spec_first p = if excl e then find good l2 else Some e).
        { unfold spec_first. rewrite E, find_app.
          rewrite find_none_all by (intros x Hx; specialize (Hl1 x Hx); destruct (Z.leb_spec p x); [lia|reflexivity]).
          cbn [find]. destruct (Z.leb_spec p e); [|lia]. unfold good at 1. cbn [andb].
          destruct (excl e); cbn [negb]; [|reflexivity].
          destruct (split_facts _ _ _ E) as [_ H2].
          apply find_ext_in. intros x Hx. specialize (H2 x Hx). destruct (Z.leb_spec p x); [reflexivity|lia]. }
        destruct (excl e) eqn:Ee.
        * destruct (gnpos fuel0 e) as [o2|er] eqn:Eg; cbn [bind]; [|discriminate].
          intros [= <- <-]. split; [|exact HI]. rewrite Hspec. eapply gnpos_spec; eauto.
        * intros [= <- <-]. split; [now symmetry|].
          destruct HI. constructor; cbn [c_first c_next c_valid c_recent c_lru]; auto.
          intros k v H. apply dict_put_In in H. destruct H as [[= -> ->]|H]; auto.
      + intros [= <- <-]. split; [|exact HI]. symmetry. unfold spec_first.
        apply find_none_all. intros x Hx. specialize (H1 x Hx). destruct (Z.leb_spec p x); [lia|reflexivity].
  Qed.

  (* ---- get_start_point ---- *)
  Lemma scan_start_spec l r : scan_start complete excl l = Ok r -> r = find good l.
  Proof.
    induction l as [|e l IH]; cbn [scan_start find].
    - unfold at_end. destruct complete; [now intros [= <-]|discriminate].
    - unfold good at 1. destruct (excl e); cbn [negb]; [exact IH|now intros [= <-]].
  Qed.

  (* ---- get_stop_point: the last non-excluded point ---- *)
  Lemma fold_last_good l acc :
    fold_left (fun acc e => if excl e then acc else Some e) l acc =
    match find good (rev l) with Some x => Some x | None => acc end.
  Proof.
    revert acc; induction l as [|e l IH]; intros acc; cbn [fold_left rev]; [reflexivity|].
    rewrite IH, find_app. destruct (find good (rev l)); [reflexivity|].
    cbn [find]. unfold good. now destruct (excl e).
  Qed.

  Lemma get_stop_spec o :
    get_stop enum complete bounded excl = Ok o -> o = spec_stop.
  Proof.
    clear. unfold get_stop, spec_stop. destruct bounded; [|now intros [= <-]].
    unfold at_end. destruct complete; cbn [bind]; [|discriminate].
    intros [= <-]. rewrite fold_last_good. now destruct (find good (rev enum)).
  Qed.

  (* ---- get_nearest_prev_point, off-sequence branch (no use of get_prev) ---- *)
  Lemma scan_prev_spec l p acc o :
    StronglySorted Z.lt l ->
    scan_prev complete excl l p acc = Ok o ->
    o = match find (fun e => (e <=? p) && good e) (rev l) with Some x => Some x | None => acc end.
  Proof.
    revert acc; induction l as [|e l IH]; intros acc Hs; cbn [scan_prev].
    - unfold at_end. destruct complete; [now intros [= <-]|discriminate].
    - inversion Hs as [|? ? Hs' Hf]; subst. rewrite Forall_forall in Hf.
      cbn [rev]. rewrite find_app. cbn [find].
      destruct (Z.ltb_spec p e).
      + intros [= <-]. rewrite find_none_all.
        * destruct (Z.leb_spec e p); [lia|reflexivity].
        * intros x Hx. apply in_rev in Hx. specialize (Hf x Hx). destruct (Z.leb_spec x p); [lia|reflexivity].
      + intros H'. rewrite (IH _ Hs' H').
        destruct (find _ (rev l)); [reflexivity|].
        destruct (Z.leb_spec e p); [|lia]. unfold good. cbn [andb]. now destruct (excl e).
  Qed.

  Lemma spec_prev_off p :
    spec_on p = false ->
    find (fun e => (e <=? p) && good e) (rev enum) = spec_prev p.
  Proof.
    intros Hoff. unfold spec_prev. apply find_ext_in. intros x Hx. apply in_rev in Hx.
    destruct (Z.eq_dec x p) as [->|Hne].
    - unfold spec_on in Hoff. apply mem_Z_In in Hx. rewrite Hx in Hoff. cbn in Hoff. rewrite Hoff.
      now rewrite !andb_false_r.
    - destruct (Z.leb_spec x p); destruct (Z.ltb_spec x p); try lia; reflexivity.
  Qed.

  (* ================================================================ *)
  (* everything that needs get_prev to invert get_next                *)
  (* ================================================================ *)
  Section Prev.
    Hypothesis H_prev : forall l1 a b l2, enum = l1 ++ a :: b :: l2 -> rprev b = Some a.
    Hypothesis H_first : forall a l2, enum = a :: l2 -> rprev a = None.

    Lemma gpp_spec fuel : forall l1 p l2 r,
      enum = l1 ++ p :: l2 -> gpp rprev excl fuel p = Ok r -> r = find good (rev l1).
    Proof.
      induction fuel as [|f IH]; intros l1 p l2 r E; cbn [gpp]; [discriminate|].
      destruct l1 as [|a0 l1'] using rev_ind.
      - rewrite (H_first p l2 E). now intros [= <-].
      - clear IHl1'. rewrite <- app_assoc in E. cbn in E.
        rewrite (H_prev _ _ _ _ E).
        destruct (split_facts _ _ _ E) as [_ H2]. assert (a0 < p) by (apply H2; now left).
        destruct (Z.eqb_spec a0 p); [lia|].
        rewrite rev_app_distr. cbn [rev app find]. unfold good at 1.
        destruct (excl a0); cbn [negb].
        + apply (IH l1' a0 (p :: l2) r E).
        + now intros [= <-].
    Qed.

    Lemma spec_prev_from l1 p l2 :
      enum = l1 ++ p :: l2 -> spec_prev p = find good (rev l1).
    Proof.
      intros E. unfold spec_prev. rewrite E, rev_app_distr. cbn [rev]. rewrite <- app_assoc, find_app.
      destruct (split_facts _ _ _ E) as [H1 H2].
      rewrite find_none_all.
      - cbn [app find]. destruct (Z.ltb_spec p p); [lia|]. cbn [andb].
        apply find_ext_in. intros x Hx. apply in_rev in Hx. specialize (H1 x Hx).
        destruct (Z.ltb_spec x p); [reflexivity|lia].
      - intros x Hx. apply in_rev in Hx. specialize (H2 x Hx). destruct (Z.ltb_spec x p); [lia|reflexivity].
    Qed.

    Lemma gpp_on_spec p r :
      In p enum -> gpp rprev excl fuel0 p = Ok r -> r = spec_prev p.
    Proof.
      intros Hin H. destruct (In_split_Z _ _ Hin) as [l1 [l2 E]].
      rewrite (spec_prev_from _ _ _ E). eapply gpp_spec; eauto.
    Qed.

    Lemma get_nearest_prev_spec s p o s' :
      Inv s -> in_window p = true ->
      get_nearest_prev enum complete rnext rprev rvalid excl N fuel0 s p = Ok (o, s') ->
      o = spec_prev p /\ Inv s'.
    Proof.
      intros HI Hw. unfold get_nearest_prev.
      destruct (is_on _ _ _ _ _ _ _ s p) as [[b s0]|e] eqn:Eo; cbn [bind]; [|discriminate].
      destruct (is_on_spec _ _ _ _ HI Hw Eo) as [Hb HI0]. destruct b.
      - destruct (gpp rprev excl fuel0 p) as [o1|e] eqn:Eg; cbn [bind]; [|discriminate].
        intros [= <- <-]. split; [|exact HI0].
        symmetry in Hb. unfold spec_on in Hb. apply andb_true_iff in Hb. destruct Hb as [Hm _].
        apply mem_Z_In in Hm. now apply gpp_on_spec.
      - destruct (scan_prev complete excl enum p None) as [o1|e] eqn:Es; cbn [bind]; [|discriminate].
        pose proof (scan_prev_spec _ _ _ _ H_sorted Es) as Ho1.
        rewrite (spec_prev_off p (eq_sym Hb)) in Ho1.
        destruct o1 as [r|].
        + destruct (r =? p); [discriminate|]. intros [= <- <-]. split; [|exact HI0].
          destruct (spec_prev p); congruence.
        + intros [= <- <-]. split; [|exact HI0]. destruct (spec_prev p); congruence.
    Qed.
  End Prev.

  (* the state after get_nearest_prev_point satisfies the invariant, with or
     without the hypotheses on get_prev *)
  Lemma get_nearest_prev_inv s p o s' :
    Inv s -> in_window p = true ->
    get_nearest_prev enum complete rnext rprev rvalid excl N fuel0 s p = Ok (o, s') -> Inv s'.
  Proof.
    intros HI Hw. unfold get_nearest_prev.
    destruct (is_on _ _ _ _ _ _ _ s p) as [[b s0]|e] eqn:Eo; cbn [bind]; [|discriminate].
    destruct (is_on_spec _ _ _ _ HI Hw Eo) as [_ HI0]. destruct b.
    - destruct (gpp rprev excl fuel0 p); cbn [bind]; [|discriminate]. now intros [= <- <-].
    - destruct (scan_prev complete excl enum p None) as [[r|]|]; cbn [bind]; try discriminate.
      + destruct (r =? p); [discriminate|]. now intros [= <- <-].
      + now intros [= <- <-].
  Qed.

  (* ================================================================ *)
  (* the API as a whole                                               *)
  (* ================================================================ *)
  Definition spec_answer (q : query) : ans :=
    match q with
    | QOn p | QValid p => ABool (spec_on p)
    | QPrev p | QNPrev p => APt (spec_prev p)
    | QNext p | QNextOn p => APt (spec_next p)
    | QFirst p => APt (spec_first p)
    | QStart => APt spec_start
    | QStop => APt spec_stop
    end.

  (* queries whose answer does not involve recurrence.get_prev *)
  Definition fwd_domain (q : query) : Prop :=
    match q with
    | QPrev _ | QNPrev _ => False
    | QNextOn p => In p enum          (* "assuming that point is on-sequence" *)
    | _ => True
    end.
  Definition prev_domain (q : query) : Prop :=
    match q with
    | QPrev p => In p enum
    | QNPrev _ => True
    | _ => False
    end.

  Notation run_query := (run_query enum complete bounded rnext rprev rvalid excl N fuel0).
  Notation run_all := (run_all enum complete bounded rnext rprev rvalid excl N fuel0).

  Lemma run_query_inv s q a s' : Inv s -> run_query s q = Ok (a, s') -> Inv s'.
  Proof.
    intros HI. unfold IsoSeq.run_query. destruct (window_ok enum complete q) eqn:Ew; cbn [negb]; [|discriminate].
    destruct q as [p|p|p|p|p|p|p| |]; cbn [window_ok query_point] in Ew.
    - destruct (is_on _ _ _ _ _ _ _ s p) as [[b s0]|e] eqn:E; cbn [bind]; [|discriminate].
      intros [= <- <-]. eapply is_on_spec; eauto.
    - destruct (is_valid _ _ _ _ _ _ _ s p) as [[b s0]|e] eqn:E; cbn [bind]; [|discriminate].
      intros [= <- <-]. eapply is_valid_spec; eauto.
    - destruct (gpp rprev excl fuel0 p); cbn [bind]; [|discriminate]. now intros [= <- <-].
    - destruct (get_nearest_prev _ _ _ _ _ _ _ _ s p) as [[o s0]|e] eqn:E; cbn [bind]; [|discriminate].
      intros [= <- <-]. eapply get_nearest_prev_inv; eauto.
    - destruct (get_next _ _ _ _ _ _ s p) as [[o s0]|e] eqn:E; cbn [bind]; [|discriminate].
      intros [= <- <-]. eapply get_next_spec; eauto.
    - destruct (gnpos fuel0 p); cbn [bind]; [|discriminate]. now intros [= <- <-].
    - destruct (get_first _ _ _ _ _ _ s p) as [[o s0]|e] eqn:E; cbn [bind]; [|discriminate].
      intros [= <- <-]. eapply get_first_spec; eauto.
    - destruct (scan_start complete excl enum); cbn [bind]; [|discriminate]. now intros [= <- <-].
    - destruct (get_stop enum complete bounded excl); cbn [bind]; [|discriminate]. now intros [= <- <-].
  Qed.

  Lemma gnpos_on_spec p r : In p enum -> gnpos fuel0 p = Ok r -> r = spec_next p.
  Proof.
    intros Hin H. destruct (In_split_Z _ _ Hin) as [l1 [l2 E]].
    rewrite (spec_next_from _ _ _ p E) by lia.
    rewrite (gnpos_spec _ _ _ _ _ E H).
    destruct (split_facts _ _ _ E) as [_ H2].
    apply find_ext_in. intros x Hx. specialize (H2 x Hx). destruct (Z.ltb_spec p x); [reflexivity|lia].
  Qed.

  Lemma run_query_fwd s q a s' :
    Inv s -> fwd_domain q -> run_query s q = Ok (a, s') -> a = spec_answer q.
  Proof.
    intros HI Hd. unfold IsoSeq.run_query. destruct (window_ok enum complete q) eqn:Ew; cbn [negb]; [|discriminate].
    destruct q as [p|p|p|p|p|p|p| |]; cbn [window_ok query_point] in Ew; cbn [fwd_domain] in Hd; try tauto;
      cbn [spec_answer].
    - destruct (is_on _ _ _ _ _ _ _ s p) as [[b s0]|e] eqn:E; cbn [bind]; [|discriminate].
      intros [= <- <-]. f_equal. exact (proj1 (is_on_spec _ _ _ _ HI Ew E)).
    - destruct (is_valid _ _ _ _ _ _ _ s p) as [[b s0]|e] eqn:E; cbn [bind]; [|discriminate].
      intros [= <- <-]. f_equal. exact (proj1 (is_valid_spec _ _ _ _ HI Ew E)).
    - destruct (get_next _ _ _ _ _ _ s p) as [[o s0]|e] eqn:E; cbn [bind]; [|discriminate].
      intros [= <- <-]. f_equal. exact (proj1 (get_next_spec _ _ _ _ HI E)).
    - destruct (gnpos fuel0 p) as [o|e] eqn:E; cbn [bind]; [|discriminate].
      intros [= <- <-]. f_equal. now apply gnpos_on_spec.
    - destruct (get_first _ _ _ _ _ _ s p) as [[o s0]|e] eqn:E; cbn [bind]; [|discriminate].
      intros [= <- <-]. f_equal. exact (proj1 (get_first_spec _ _ _ _ HI E)).
    - destruct (scan_start complete excl enum) as [o|e] eqn:E; cbn [bind]; [|discriminate].
      intros [= <- <-]. f_equal. now apply scan_start_spec.
    - destruct (get_stop enum complete bounded excl) as [o|e] eqn:E; cbn [bind]; [|discriminate].
      intros [= <- <-]. f_equal. now apply get_stop_spec.
  Qed.

  Lemma run_query_prev s q a s' :
    (forall l1 a b l2, enum = l1 ++ a :: b :: l2 -> rprev b = Some a) ->
    (forall a l2, enum = a :: l2 -> rprev a = None) ->
    Inv s -> prev_domain q -> run_query s q = Ok (a, s') -> a = spec_answer q.
  Proof.
    intros Hp Hf HI Hd. unfold IsoSeq.run_query. destruct (window_ok enum complete q) eqn:Ew; cbn [negb]; [|discriminate].
    destruct q as [p|p|p|p|p|p|p| |]; cbn [window_ok query_point] in Ew; cbn [prev_domain] in Hd; try tauto;
      cbn [spec_answer].
    - destruct (gpp rprev excl fuel0 p) as [o|e] eqn:E; cbn [bind]; [|discriminate].
      intros [= <- <-]. f_equal. now apply gpp_on_spec.
    - destruct (get_nearest_prev _ _ _ _ _ _ _ _ s p) as [[o s0]|e] eqn:E; cbn [bind]; [|discriminate].
      intros [= <- <-]. f_equal. exact (proj1 (get_nearest_prev_spec Hp Hf _ _ _ _ HI Ew E)).
  Qed.

  (* the answer to a query does not depend on the cached state at all *)
  Lemma run_query_transparent s1 s2 q a1 a2 s1' s2' :
    Inv s1 -> Inv s2 ->
    run_query s1 q = Ok (a1, s1') -> run_query s2 q = Ok (a2, s2') -> a1 = a2.
  Proof.
    intros H1 H2. unfold IsoSeq.run_query.
    destruct (window_ok enum complete q) eqn:Ew; cbn [negb]; [|discriminate].
    destruct q as [p|p|p|p|p|p|p| |]; cbn [window_ok query_point] in Ew.
    - destruct (is_on _ _ _ _ _ _ _ s1 p) as [[b1 t1]|e] eqn:E1; cbn [bind]; [|discriminate].
      destruct (is_on _ _ _ _ _ _ _ s2 p) as [[b2 t2]|e] eqn:E2; cbn [bind]; [|discriminate].
      intros [= <- <-] [= <- <-]. f_equal.
      destruct (is_on_spec _ _ _ _ H1 Ew E1) as [-> _]. destruct (is_on_spec _ _ _ _ H2 Ew E2) as [-> _]. reflexivity.
    - destruct (is_valid _ _ _ _ _ _ _ s1 p) as [[b1 t1]|e] eqn:E1; cbn [bind]; [|discriminate].
      destruct (is_valid _ _ _ _ _ _ _ s2 p) as [[b2 t2]|e] eqn:E2; cbn [bind]; [|discriminate].
      intros [= <- <-] [= <- <-]. f_equal.
      destruct (is_valid_spec _ _ _ _ H1 Ew E1) as [-> _]. destruct (is_valid_spec _ _ _ _ H2 Ew E2) as [-> _]. reflexivity.
    - destruct (gpp rprev excl fuel0 p); cbn [bind]; [|discriminate]. now intros [= <- <-] [= <- <-].
    - unfold get_nearest_prev.
      destruct (is_on _ _ _ _ _ _ _ s1 p) as [[b1 t1]|e] eqn:E1; cbn [bind]; [|discriminate].
      destruct (is_on _ _ _ _ _ _ _ s2 p) as [[b2 t2]|e] eqn:E2; cbn [bind]; [|discriminate].
      destruct (is_on_spec _ _ _ _ H1 Ew E1) as [-> _]. destruct (is_on_spec _ _ _ _ H2 Ew E2) as [-> _].
      destruct (spec_on p).
      + destruct (gpp rprev excl fuel0 p); cbn [bind]; [|discriminate]. now intros [= <- <-] [= <- <-].
      + destruct (scan_prev complete excl enum p None) as [[r|]|]; cbn [bind]; try discriminate.
        * destruct (r =? p); [discriminate|]. now intros [= <- <-] [= <- <-].
        * now intros [= <- <-] [= <- <-].
    - destruct (get_next _ _ _ _ _ _ s1 p) as [[o1 t1]|e] eqn:E1; cbn [bind]; [|discriminate].
      destruct (get_next _ _ _ _ _ _ s2 p) as [[o2 t2]|e] eqn:E2; cbn [bind]; [|discriminate].
      intros [= <- <-] [= <- <-]. f_equal.
      destruct (get_next_spec _ _ _ _ H1 E1) as [-> _]. destruct (get_next_spec _ _ _ _ H2 E2) as [-> _]. reflexivity.
    - destruct (gnpos fuel0 p); cbn [bind]; [|discriminate]. now intros [= <- <-] [= <- <-].
    - destruct (get_first _ _ _ _ _ _ s1 p) as [[o1 t1]|e] eqn:E1; cbn [bind]; [|discriminate].
      destruct (get_first _ _ _ _ _ _ s2 p) as [[o2 t2]|e] eqn:E2; cbn [bind]; [|discriminate].
      intros [= <- <-] [= <- <-]. f_equal.
      destruct (get_first_spec _ _ _ _ H1 E1) as [-> _]. destruct (get_first_spec _ _ _ _ H2 E2) as [-> _]. reflexivity.
    - destruct (scan_start complete excl enum); cbn [bind]; [|discriminate]. now intros [= <- <-] [= <- <-].
    - destruct (get_stop enum complete bounded excl); cbn [bind]; [|discriminate]. now intros [= <- <-] [= <- <-].
  Qed.

  (* a session: the i-th answer was produced from a state satisfying the invariant *)
  Lemma run_all_nth qs : forall s i q a,
    Inv s -> nth_error qs i = Some q -> nth_error (run_all s qs) i = Some (Ok a) ->
    exists si si', Inv si /\ run_query si q = Ok (a, si').
  Proof.
    induction qs as [|q0 qs IH]; intros s i q a HI Hq Ha; [destruct i; discriminate|].
    cbn [IsoSeq.run_all] in Ha.
    destruct (run_query s q0) as [[a0 s0]|e] eqn:E.
    - destruct i as [|i]; cbn in Hq, Ha.
      + injection Hq as <-. injection Ha as <-. eauto.
      + apply (IH s0 i q a); auto. eapply run_query_inv; eauto.
    - destruct i as [|i]; cbn in Ha; [discriminate|]. destruct i; discriminate.
  Qed.

End SeqProofs.

(* ------------------------------------------------------------------ *)
(* what the enumeration-level definitions mean: least / greatest         *)
(* ------------------------------------------------------------------ *)
Lemma find_sorted_least (f : Z -> bool) l :
  StronglySorted Z.lt l ->
  match find f l with
  | Some n => In n l /\ f n = true /\ forall e, In e l -> f e = true -> n <= e
  | None => forall e, In e l -> f e = false
  end.
Proof.
  intros Hs. destruct (find f l) as [n|] eqn:E; [|exact (find_none_inv _ _ E)].
  destruct (find_some_split _ _ _ E) as [m [r [-> [Hn Hm]]]].
  destruct (sorted_split _ _ _ Hs) as [_ [H2 _]].
  repeat split; auto; [apply in_or_app; right; now left|].
  intros e He Hfe. apply in_app_or in He. destruct He as [He|[<-|He]]; [|lia|].
  - rewrite (Hm e He) in Hfe. discriminate.
  - specialize (H2 e He). lia.
Qed.

Lemma find_sorted_greatest (f : Z -> bool) l :
  StronglySorted Z.lt l ->
  match find f (rev l) with
  | Some n => In n l /\ f n = true /\ forall e, In e l -> f e = true -> e <= n
  | None => forall e, In e l -> f e = false
  end.
Proof.
  intros Hs. destruct (find f (rev l)) as [n|] eqn:E.
  - destruct (find_some_split _ _ _ E) as [m [r [Er [Hn Hm]]]].
    assert (El : l = rev r ++ n :: rev m).
    { rewrite <- (rev_involutive l), Er, rev_app_distr. cbn. now rewrite <- app_assoc. }
    rewrite El in Hs. destruct (sorted_split _ _ _ Hs) as [H1 _].
    repeat split; auto; [rewrite El; apply in_or_app; right; now left|].
    intros e He Hfe. rewrite El in He. apply in_app_or in He. destruct He as [He|[<-|He]]; [|lia|].
    + specialize (H1 e He). lia.
    + apply in_rev in He. rewrite (Hm e He) in Hfe. discriminate.
  - intros e He. apply (find_none_inv _ _ E). rewrite <- in_rev. exact He.
Qed.

(* ------------------------------------------------------------------ *)
(* the decidable check of the hypotheses is sound                      *)
(* ------------------------------------------------------------------ *)
Lemma strictly_increasing_sound l : strictly_increasing l = true -> StronglySorted Z.lt l.
Proof.
  intros H. apply Sorted_StronglySorted; [exact Z.lt_trans|].
  induction l as [|a l IH]; [constructor|].
  destruct l as [|b l]; [repeat constructor|].
  cbn [strictly_increasing] in H. apply andb_true_iff in H. destruct H as [H1 H2].
  constructor; [auto|]. constructor. now apply Z.ltb_lt.
Qed.

Lemma option_eqb_Z a b : option_eqb Z.eqb a b = true -> a = b.
Proof.
  destruct a, b; cbn; try discriminate; auto. intros H. apply Z.eqb_eq in H. congruence.
Qed.

Lemma links_ok_cons2 rn rp a b r :
  links_ok rn rp (a :: b :: r) =
  (let '(n, p) := links_ok rn rp (b :: r) in
   (option_eqb Z.eqb (rn a) (Some b) && n, option_eqb Z.eqb (rp b) (Some a) && p)).
Proof. reflexivity. Qed.

Lemma links_ok_sound rn rp l :
  (fst (links_ok rn rp l) = true -> forall l1 a b l2, l = l1 ++ a :: b :: l2 -> rn a = Some b) /\
  (snd (links_ok rn rp l) = true -> forall l1 a b l2, l = l1 ++ a :: b :: l2 -> rp b = Some a).
Proof.
  induction l as [|x l IH]; [split; intros _ [|? ?] ? ? ? E; discriminate|].
  destruct l as [|y l].
  - split; intros _ [|? [|? ?]] ? ? ? E; discriminate.
  - rewrite links_ok_cons2. destruct (links_ok rn rp (y :: l)) as [n p] eqn:El. cbn [fst snd] in *.
    destruct IH as [IH1 IH2]. split; intros H l1 a b l2 E; apply andb_true_iff in H; destruct H as [H1 H2].
    + destruct l1 as [|z l1]; cbn in E.
      * injection E as -> -> _. now apply option_eqb_Z.
      * injection E as _ E. eapply IH1; eauto.
    + destruct l1 as [|z l1]; cbn in E.
      * injection E as -> -> _. now apply option_eqb_Z.
      * injection E as _ E. eapply IH2; eauto.
Qed.

Lemma last_ok_sound complete rn l :
  last_ok complete rn l = true ->
  forall l1 a, l = l1 ++ [a] ->
  if complete then rn a = None else exists x, rn a = Some x /\ a < x.
Proof.
  unfold last_ok. intros H l1 a E. rewrite E, rev_app_distr in H. cbn in H.
  destruct (rn a) as [x|].
  - apply andb_true_iff in H. destruct H as [H1 H2]. apply negb_true_iff in H1. rewrite H1.
    exists x. split; auto. now apply Z.ltb_lt.
  - now rewrite H.
Qed.

Lemma first_ok_sound rp l : first_ok rp l = true -> forall a l2, l = a :: l2 -> rp a = None.
Proof. unfold first_ok. intros H a l2 ->. destruct (rp a); [discriminate|reflexivity]. Qed.

Lemma hyps_check_sound enum complete rn rp rv pts :
  fst (hyps_check enum complete rn rp rv pts) = true ->
  StronglySorted Z.lt enum /\
  (forall l1 a b l2, enum = l1 ++ a :: b :: l2 -> rn a = Some b) /\
  (forall l1 a, enum = l1 ++ [a] -> if complete then rn a = None else exists x, rn a = Some x /\ a < x) /\
  (forall p, In p (pts ++ enum) -> in_window enum complete p = true -> rv p = mem Z.eqb p enum).
Proof.
  unfold hyps_check. destruct (links_ok rn rp enum) as [n p] eqn:El. cbn [fst].
  intros H. repeat (apply andb_true_iff in H; destruct H as [H ?]).
  repeat split.
  - now apply strictly_increasing_sound.
  - apply (proj1 (links_ok_sound rn rp enum)). now rewrite El.
  - now apply last_ok_sound.
  - intros q Hq Hw. rewrite forallb_forall in H0. specialize (H0 q Hq).
    rewrite Hw in H0. cbn in H0. now apply eqb_prop.
Qed.

Lemma hyps_check_sound_prev enum complete rn rp rv pts :
  snd (hyps_check enum complete rn rp rv pts) = true ->
  (forall l1 a b l2, enum = l1 ++ a :: b :: l2 -> rp b = Some a) /\
  (forall a l2, enum = a :: l2 -> rp a = None).
Proof.
  unfold hyps_check. destruct (links_ok rn rp enum) as [n p] eqn:El. cbn [snd].
  intros H. apply andb_true_iff in H. destruct H as [H1 H2]. split.
  - apply (proj2 (links_ok_sound rn rp enum)). now rewrite El.
  - now apply first_ok_sound.
Qed.
