(* Proofs/FlowProofs.v — lemmas about Model/Flow.v (C08) *)
From Coq Require Import List Bool ZArith Lia.
From Cylc Require Import Base.Util Model.Flow.
Import ListNotations.
Open Scope Z_scope.

Lemma zmem_In x l : zmem x l = true <-> In x l.
Proof. unfold zmem. apply mem_In. intros a b. apply Z.eqb_eq. Qed.

Lemma zmem_false x l : zmem x l = false <-> ~ In x l.
Proof. rewrite <- zmem_In. destruct (zmem x l); split; congruence. Qed.

(* ---- the skip loop ---- *)
Lemma next_free_spec : forall fuel c flows n,
  next_free fuel c flows = Some n -> c <= n /\ ~ In n flows.
Proof.
  induction fuel as [|f IH]; intros c flows n; cbn [next_free]; [discriminate|].
  destruct (zmem c flows) eqn:E.
  - intros H. apply IH in H. destruct H. split; [lia|assumption].
  - intros [= <-]. split; [lia|]. now apply zmem_false.
Qed.

Definition above (c : Z) (flows : list Z) : nat := length (filter (fun x => c <=? x) flows).

Lemma above_mono c flows : (above (c + 1) flows <= above c flows)%nat.
Proof.
  unfold above. induction flows as [|y r IH]; cbn; [lia|].
  destruct (Z.leb_spec (c + 1) y), (Z.leb_spec c y); cbn; lia.
Qed.

Lemma above_step c flows : In c flows -> (above (c + 1) flows < above c flows)%nat.
Proof.
  induction flows as [|x r IH]; cbn [In]; [tauto|].
  pose proof (above_mono c r) as Hle. unfold above in *. cbn [filter].
  intros [->|Hin].
  - destruct (Z.leb_spec (c + 1) c); [lia|]. destruct (Z.leb_spec c c); [|lia]. cbn. lia.
  - specialize (IH Hin). destruct (Z.leb_spec (c + 1) x), (Z.leb_spec c x); cbn; lia.
Qed.

Lemma next_free_fuel : forall fuel c flows,
  (above c flows < fuel)%nat -> next_free fuel c flows <> None.
Proof.
  induction fuel as [|f IH]; intros c flows H; [lia|]. cbn [next_free].
  destruct (zmem c flows) eqn:E; [|discriminate].
  apply IH. apply zmem_In in E. pose proof (above_step c flows E). lia.
Qed.

Lemma next_free_total c flows : next_free (S (length flows)) c flows <> None.
Proof.
  apply next_free_fuel. unfold above.
  assert (forall (f : Z -> bool) l, (length (filter f l) <= length l)%nat).
  { intros f l. induction l as [|x r IH]; cbn; [lia|]. destruct (f x); cbn; lia. }
  specialize (H (fun x => c <=? x) flows). lia.
Qed.

(* ---- sets as lists ---- *)
Lemma zunion_In a b x : In x (zunion a b) <-> In x a \/ In x b.
Proof.
  unfold zunion. revert a. induction b as [|y r IH]; intros a; cbn [fold_left]; [cbn; tauto|].
  rewrite IH. destruct (zmem y a) eqn:E.
  - apply zmem_In in E. cbn. split; [tauto|]. intros [H|[<-|H]]; auto.
  - rewrite in_app_iff. cbn. tauto.
Qed.

Lemma fold_max_ge : forall l m x, (x = m \/ In x l) -> x <= fold_left Z.max l m.
Proof.
  induction l as [|y r IH]; intros m x; cbn [fold_left In].
  - intros [->|[]]. lia.
  - intros [->|[E|H]].
    + transitivity (Z.max m y); [lia|]. apply IH. now left.
    + subst y. transitivity (Z.max m x); [lia|]. apply IH. now left.
    + apply IH. now right.
Qed.

Lemma zmax_list_ge l m : zmax_list l = Some m -> forall x, In x l -> x <= m.
Proof.
  destruct l as [|y r]; cbn; [discriminate|]. intros [= <-] x [->|H]; apply fold_max_ge; auto.
Qed.

Lemma In_insert_by {A} (leb : A -> A -> bool) x y l : In x (insert_by leb y l) <-> x = y \/ In x l.
Proof.
  induction l as [|z r IH]; cbn; [intuition|].
  destruct (leb y z); cbn; [intuition|]. rewrite IH. intuition.
Qed.

Lemma In_sort_by {A} (leb : A -> A -> bool) x l : In x (sort_by leb l) <-> In x l.
Proof.
  unfold sort_by. induction l as [|y r IH]; cbn; [tauto|].
  rewrite In_insert_by, IH. intuition.
Qed.

Lemma In_dedup_Z x l : In x (dedup Z.eqb l) <-> In x l.
Proof.
  induction l as [|y r IH]; cbn; [tauto|].
  destruct (mem Z.eqb y r) eqn:E.
  - rewrite IH. fold (zmem y r) in E. apply zmem_In in E. split; [auto|]. intros [<-|H]; auto.
  - cbn. rewrite IH. tauto.
Qed.

Lemma In_zsorted x l : In x (zsorted l) <-> In x l.
Proof. unfold zsorted. now rewrite In_sort_by, In_dedup_Z. Qed.

(* ---- the invariant ---- *)
Definition used (st : fstate) : list Z := f_pending st ++ f_db st.

Record Inv (st : fstate) : Prop := {
  inv_flows : forall x, In x (f_flows st) -> In x (used st);
  inv_counter : forall c, f_counter st = Some c ->
                forall r, In r (used st) -> r <= c \/ In r (f_flows st)
}.

Lemma Inv_init : Inv f_init.
Proof. constructor; cbn; [tauto|]. intros c _ r []. Qed.

Definition grows (st st' : fstate) : Prop := forall x, In x (used st) -> In x (used st').

Definition st_rec (st : fstate) (n : Z) (cnt : option Z) : fstate :=
  {| f_counter := cnt; f_flows := f_flows st ++ [n];
     f_pending := f_pending st ++ [n]; f_db := f_db st |}.

Lemma used_rec st n cnt x : In x (used (st_rec st n cnt)) <-> In x (used st) \/ x = n.
Proof. unfold used, st_rec. cbn. rewrite !in_app_iff. cbn. intuition. Qed.

Lemma flows_rec st n cnt x : In x (f_flows (st_rec st n cnt)) <-> In x (f_flows st) \/ x = n.
Proof. unfold st_rec. cbn. rewrite in_app_iff. cbn. intuition. Qed.

Lemma st_rec_inv st n cnt :
  Inv st ->
  (forall c, cnt = Some c -> forall r, In r (used st) -> r <= c \/ In r (f_flows st)) ->
  (forall c, cnt = Some c -> n <= c \/ True) ->
  Inv (st_rec st n cnt) /\ grows st (st_rec st n cnt) /\ In n (used (st_rec st n cnt)).
Proof.
  intros [H1 H2] Hc _. split; [constructor|split].
  - intros x Hx. apply flows_rec in Hx. apply used_rec. destruct Hx as [Hx|Hx]; auto.
  - intros c Ec r Hr. apply used_rec in Hr. rewrite flows_rec. cbn in Ec.
    destruct Hr as [Hr|Hr]; [|auto]. destruct (Hc c Ec r Hr); auto.
  - intros x Hx. apply used_rec. auto.
  - apply used_rec. auto.
Qed.

Lemma get_flow_given st n st' r :
  get_flow st (Some n) = (st', r) -> Inv st ->
  r = RNum n /\ Inv st' /\ grows st st' /\ In n (used st').
Proof.
  unfold get_flow. destruct (zmem n (f_flows st)) eqn:E; intros [= <- <-] Hi.
  - apply zmem_In in E. destruct Hi as [H1 H2]. split; [reflexivity|]. split; [constructor; assumption|].
    split; [intros x Hx; exact Hx|]. exact (H1 _ E).
  - split; [reflexivity|]. apply (st_rec_inv st n (f_counter st) Hi); [|auto].
    intros c Ec r Hr. exact (inv_counter _ Hi c Ec r Hr).
Qed.

Lemma get_flow_new st st' r :
  get_flow st None = (st', r) -> Inv st ->
  match r with
  | RNum n => ~ In n (used st) /\ Inv st' /\ grows st st' /\ In n (used st')
  | RTypeError => f_counter st = None /\ st' = st
  | ROutOfFuel => False
  end.
Proof.
  unfold get_flow. destruct (f_counter st) as [c|] eqn:Ec.
  - destruct (next_free (S (length (f_flows st))) (c + 1) (f_flows st)) as [n|] eqn:En.
    + destruct (next_free_spec _ _ _ _ En) as [Hc Hn].
      assert (E : zmem n (f_flows st) = false) by now apply zmem_false.
      rewrite E. intros [= <- <-] Hi.
      assert (Hfresh : ~ In n (used st)).
      { intros Hu. destruct (inv_counter _ Hi c Ec n Hu); [lia|contradiction]. }
      split; [exact Hfresh|]. apply (st_rec_inv st n (Some n) Hi); [|auto].
      intros c' [= <-] r Hr. destruct (inv_counter _ Hi c Ec r Hr); [left; lia|auto].
    + exfalso. exact (next_free_total _ _ En).
  - intros [= <- <-] _. auto.
Qed.

Lemma flush_inv st : Inv st -> Inv (flush st) /\ grows st (flush st).
Proof.
  intros [H1 H2]. unfold flush, used, grows in *. cbn. repeat split; cbn.
  - intros x Hx. apply H1 in Hx. apply zunion_In. apply in_app_iff in Hx. tauto.
  - intros c Hc r Hr. apply zunion_In in Hr. apply (H2 c Hc). apply in_app_iff. tauto.
  - intros x Hx. apply zunion_In. apply in_app_iff in Hx. tauto.
Qed.

Lemma restart_inv st sel : Inv st -> Inv (restart st sel) /\ grows st (restart st sel).
Proof.
  intros [H1 H2]. unfold restart, used, grows in *. cbn. repeat split; cbn.
  - intros x Hx. apply filter_In in Hx. tauto.
  - intros c Hc r Hr. left. eapply zmax_list_ge; eauto.
  - intros x Hx. apply zunion_In. apply in_app_iff in Hx. tauto.
Qed.

Lemma grows_refl st : grows st st.
Proof. intros x H. exact H. Qed.
Lemma grows_trans a b c : grows a b -> grows b c -> grows a c.
Proof. intros H1 H2 x H. auto. Qed.

Lemma pack3 (A B C : Prop) : A -> B -> C -> A /\ B /\ C.
Proof. tauto. Qed.
Lemma pack4 (A B C D : Prop) : A -> B -> C -> D -> A /\ B /\ C /\ D.
Proof. tauto. Qed.

Lemma get_all_inv : forall l st acc st' res,
  get_all st l acc = (st', res) -> Inv st ->
  (forall x, In x acc -> In x (used st)) ->
  Inv st' /\ grows st st' /\ (forall x, In x res -> In x (used st')).
Proof.
  induction l as [|n r IH]; intros st acc st' res; cbn [get_all].
  - intros [= <- <-] Hi Ha. apply pack3; [exact Hi|apply grows_refl|exact Ha].
  - destruct (get_flow st (Some n)) as [st1 r1] eqn:E. intros H Hi Ha.
    destruct (get_flow_given _ _ _ _ E Hi) as (-> & Hi1 & Hg1 & Hn).
    destruct (IH _ _ _ _ H Hi1) as (Hi' & Hg' & Hres).
    + intros x Hx. apply in_app_iff in Hx. destruct Hx as [Hx|[<-|[]]]; auto.
    + apply pack3; [exact Hi'|eapply grows_trans; eauto|exact Hres].
Qed.

Definition obs_nums (o : fobs) : list Z := match o with ObNums l => l | _ => [] end.

Definition res_obs (r : fres) : fobs :=
  match r with RNum n => ObNums [n] | RTypeError => ObTypeError | ROutOfFuel => ObFuel end.

Lemma get_new_step st st1 r :
  get_flow st None = (st1, r) -> Inv st ->
  Inv st1 /\ grows st st1 /\ (forall x, In x (obs_nums (res_obs r)) -> In x (used st1)) /\ res_obs r <> ObFuel.
Proof.
  intros E Hi. pose proof (get_flow_new _ _ _ E Hi) as H. destruct r as [n| |]; [| |destruct H].
  - destruct H as (H0 & H1 & H2 & H3). apply pack4; auto; [|discriminate].
    cbn. intros x [<-|[]]. exact H3.
  - destruct H as [_ ->]. apply pack4; auto; [apply grows_refl| |discriminate]. cbn. tauto.
Qed.

(* one step: the invariant is kept, recorded numbers only grow, what is returned is recorded *)
Lemma fstep_inv st o st' ob :
  fstep st o = (st', ob) -> Inv st ->
  Inv st' /\ grows st st' /\ (forall x, In x (obs_nums ob) -> In x (used st')) /\ ob <> ObFuel.
Proof.
  destruct o as [[n|]|[| |l]| |sel]; cbn [fstep].
  - destruct (get_flow st (Some n)) as [st1 r] eqn:E. intros [= <- <-] Hi.
    destruct (get_flow_given _ _ _ _ E Hi) as (-> & H1 & H2 & H3).
    apply pack4; auto; [|discriminate]. cbn. intros x [<-|[]]. exact H3.
  - destruct (get_flow st None) as [st1 r] eqn:E. intros [= <- <-] Hi.
    exact (get_new_step _ _ _ E Hi).
  - intros [= <- <-] Hi. apply pack4; auto; [apply grows_refl| |discriminate]. cbn. tauto.
  - destruct (get_flow st None) as [st1 r] eqn:E. intros [= <- <-] Hi.
    exact (get_new_step _ _ _ E Hi).
  - destruct (get_all st l []) as [st1 res] eqn:E. intros [= <- <-] Hi.
    destruct (get_all_inv _ _ _ _ _ E Hi) as (H1 & H2 & H3); [intros x []|].
    apply pack4; auto; [|discriminate]. cbn [obs_nums]. intros x Hx. apply (proj1 (In_zsorted _ _)) in Hx. exact (H3 _ Hx).
  - intros [= <- <-] Hi. destruct (flush_inv _ Hi). apply pack4; auto; [|discriminate]. cbn. tauto.
  - intros [= <- <-] Hi. destruct (restart_inv st sel Hi). apply pack4; auto; [|discriminate]. cbn. tauto.
Qed.

Definition is_new (o : fop) : bool :=
  match o with OGet None => true | OCli CNew => true | _ => false end.

(* THE freshness step: a number handed out for a new flow is not recorded anywhere *)
Lemma fstep_new_fresh st o st' n :
  is_new o = true -> fstep st o = (st', ObNums [n]) -> Inv st -> ~ In n (used st).
Proof.
  destruct o as [[m|]|[| |l]| |sel]; cbn [is_new]; try discriminate; intros _; cbn [fstep];
    destruct (get_flow st None) as [st1 r] eqn:E; intros H Hi;
    pose proof (get_flow_new _ _ _ E Hi) as G; destruct r as [k| |]; try discriminate;
    injection H as <- <-; tauto.
Qed.

(* histories *)
Lemma frun_inv : forall ops st st' obs,
  frun st ops = (st', obs) -> Inv st ->
  Inv st' /\ grows st st' /\ (forall ob x, In ob obs -> In x (obs_nums ob) -> In x (used st'))
  /\ ~ In ObFuel obs.
Proof.
  induction ops as [|o r IH]; intros st st' obs; cbn [frun].
  - intros [= <- <-] Hi. apply pack4; auto; [apply grows_refl|intros ob x []].
  - destruct (fstep st o) as [st1 ob] eqn:Es. destruct (frun st1 r) as [st2 obs2] eqn:Er.
    intros [= <- <-] Hi.
    destruct (fstep_inv _ _ _ _ Es Hi) as (Hi1 & Hg1 & Hr1 & Hf1).
    destruct (IH _ _ _ Er Hi1) as (Hi2 & Hg2 & Hr2 & Hf2).
    apply pack4; auto.
    + eapply grows_trans; eauto.
    + intros ob0 x [<-|Hin] Hx; [apply Hg2; auto|eauto].
    + intros [H|H]; auto.
Qed.

Lemma frun_app : forall a b st,
  frun st (a ++ b) =
    let (st1, o1) := frun st a in let (st2, o2) := frun st1 b in (st2, o1 ++ o2).
Proof.
  induction a as [|o r IH]; intros b st; cbn [frun app].
  - destruct (frun st b). reflexivity.
  - destruct (fstep st o) as [st1 ob]. rewrite IH.
    destruct (frun st1 r) as [st2 o2]. destruct (frun st2 b) as [st3 o3]. reflexivity.
Qed.

Theorem new_flow_never_used_before pre o st obs_pre st' n :
  frun f_init pre = (st, obs_pre) ->
  is_new o = true -> fstep st o = (st', ObNums [n]) ->
  ~ In n (used st) /\ (forall ob, In ob obs_pre -> ~ In n (obs_nums ob)).
Proof.
  intros Er Hn Es. destruct (frun_inv _ _ _ _ Er Inv_init) as (Hi & _ & Hr & _).
  pose proof (fstep_new_fresh _ _ _ _ Hn Es Hi) as Hf. split; [exact Hf|].
  intros ob Hob Hx. apply Hf. eauto.
Qed.

(* ---- merging ---- *)
Lemma flow_union_In mine other x : In x (flow_union mine other) <-> In x mine \/ In x other.
Proof. unfold flow_union. rewrite In_zsorted, in_app_iff. tauto. Qed.
