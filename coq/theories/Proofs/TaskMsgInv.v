(* Proofs/TaskMsgInv.v - projections of a step and the well-formedness invariant of Model/TaskMsg.v *)
From Coq Require Import List Bool Arith ZArith Lia.
From Cylc Require Import Base.Util Gen.TaskMsgTables Model.TaskMsg Proofs.TaskMsgProofs.
Import ListNotations.

(* ====================================================================== *)
(* Part 3: projections of a step                                           *)
(* ====================================================================== *)
Lemma In_add1 x o l : In x (add1 o l) <-> x = o \/ In x l.
Proof.
  unfold add1. destruct (mem out_eqb o l) eqn:E; cbn.
  - split; [auto|]. intros [->|H]; [|exact H].
    apply (mem_In out_eqb out_eqb_eq). exact E.
  - split; intros [H|H]; auto.
Qed.
Lemma In_addl x l a : In x (addl l a) <-> In x l \/ In x a.
Proof.
  unfold addl. revert l. induction a as [|o a IH]; intros l; cbn.
  - tauto.
  - rewrite IH, In_add1. split; intros H; intuition (subst; auto).
Qed.

Lemma pm_ignored t m f n : check t m f n = false -> process_message t m f n = (t, []).
Proof. intros C. rewrite pm_closed_eq. unfold pm_closed. rewrite C. reflexivity. Qed.

Lemma pm_ctl t m f n : check t m f n = true ->
  ctl_of (fst (process_message t m f n)) = ctl_next (ctl_of t) (hs t) (ht t) m (flag_received f).
Proof.
  intros C. rewrite pm_closed_eq. unfold pm_closed. rewrite C. cbn [negb fst].
  destruct (ctl_next (ctl_of t) (hs t) (ht t) m (flag_received f)); reflexivity.
Qed.
Lemma pm_outs t m f n : check t m f n = true ->
  outs (fst (process_message t m f n)) = addl (outs t) (adds t m (flag_received f)).
Proof. intros C. rewrite pm_closed_eq. unfold pm_closed. rewrite C. reflexivity. Qed.
Lemma pm_eff t m f n : check t m f n = true ->
  snd (process_message t m f n) = eff_next t m (flag_received f).
Proof. intros C. rewrite pm_closed_eq. unfold pm_closed. rewrite C. reflexivity. Qed.

(* submit number and configuration never change in process_message *)
Definition same_frame (t t' : task) : Prop :=
  sn t' = sn t /\ cf_n t' = cf_n t /\ cf_m t' = cf_m t /\ cf_k t' = cf_k t.
Lemma pm_frame t m f n : same_frame t (fst (process_message t m f n)).
Proof.
  rewrite pm_closed_eq. unfold pm_closed, same_frame.
  destruct (check t m f n); cbn; auto.
Qed.

Lemma st_ctl t : st t = c_st (ctl_of t). Proof. reflexivity. Qed.
Lemma texec_ctl t : texec t = c_exec (ctl_of t). Proof. reflexivity. Qed.
Lemma tsub_ctl t : tsub t = c_sub (ctl_of t). Proof. reflexivity. Qed.

(* completed outputs only grow *)
Lemma pm_outs_mono t m f n x :
  In x (outs t) -> In x (outs (fst (process_message t m f n))).
Proof.
  intros H. destruct (check t m f n) eqn:C.
  - rewrite pm_outs by exact C. apply In_addl. auto.
  - rewrite pm_ignored by exact C. exact H.
Qed.

Lemma prep_raw_outs t : outs (prep_raw t) = outs t.
Proof. unfold prep_raw. destruct (status_eqb (st t) Preparing); reflexivity. Qed.

Lemma step_outs_mono t o x : In x (outs t) -> In x (outs (fst (step t o))).
Proof.
  intros H. destruct o as [|ok|m f rel]; cbn [step].
  - destruct (preppable t); cbn [fst]; [rewrite prep_raw_outs|]; exact H.
  - apply pm_outs_mono. exact H.
  - apply pm_outs_mono. exact H.
Qed.

Lemma run_cons t o r : run t (o :: r) = (fst (run (fst (step t o)) r), step t o :: snd (run (fst (step t o)) r)).
Proof. reflexivity. Qed.
Lemma final_cons t o r : final t (o :: r) = final (fst (step t o)) r.
Proof. reflexivity. Qed.
Lemma final_app t a b : final t (a ++ b) = final (final t a) b.
Proof.
  revert t. induction a as [|o a IH]; intros t; [reflexivity|].
  cbn [app]. rewrite !final_cons. apply IH.
Qed.

Lemma run_outs_mono t ops x : In x (outs t) -> In x (outs (final t ops)).
Proof.
  revert t. induction ops as [|o r IH]; intros t H; [exact H|].
  rewrite final_cons. apply IH. apply step_outs_mono. exact H.
Qed.

(* every intermediate state of a run satisfies an inductive invariant *)
Lemma run_invariant (P : task -> Prop) :
  (forall t o, P t -> P (fst (step t o))) ->
  forall ops t, P t -> P (final t ops) /\ Forall (fun te => P (fst te)) (snd (run t ops)).
Proof.
  intros HP ops. induction ops as [|o r IH]; intros t Ht.
  - split; [exact Ht|constructor].
  - rewrite final_cons, run_cons. cbn [snd].
    destruct (IH _ (HP t o Ht)) as [H1 H2]. split; [exact H1|]. constructor; [apply HP; exact Ht|exact H2].
Qed.

(* ====================================================================== *)
(* Part 4: the well-formedness invariant                                   *)
(* ====================================================================== *)
Definition timer_ok (x : option timer) (len : nat) : Prop :=
  forall y, x = Some y -> tm_len y = len /\ tm_num y <= len.

Record wf (t : task) : Prop := {
  wf_hs : rk Submitted <= rk (st t) -> In OSubmitted (outs t);
  wf_ht : rk Running <= rk (st t) -> In OStarted (outs t);
  wf_closed : In OSucceeded (outs t) \/ In OFailed (outs t) ->
              In OSubmitted (outs t) /\ In OStarted (outs t);
  wf_exec : timer_ok (texec t) (cf_n t);
  wf_sub : timer_ok (tsub t) (cf_m t);
  wf_failed : st t = Failed -> no_next (texec t) = true;
  wf_subfailed : st t = SubmitFailed -> no_next (tsub t) = true;
  wf_wait : st t = Waiting -> 0 < sn t -> retry_lined_up t = true;
  wf_sn0 : sn t = 0 -> texec t = None /\ tsub t = None;
  wf_prep0 : st t = Preparing -> 0 < sn t
}.

Lemma hs_In t : hs t = true <-> In OSubmitted (outs t).
Proof. apply is_complete_In. Qed.
Lemma ht_In t : ht t = true <-> In OStarted (outs t).
Proof. apply is_complete_In. Qed.
Lemma hs_false_In t : hs t = false <-> ~ In OSubmitted (outs t).
Proof. rewrite <- hs_In. destruct (hs t); split; congruence. Qed.
Lemma ht_false_In t : ht t = false <-> ~ In OStarted (outs t).
Proof. rewrite <- ht_In. destruct (ht t); split; congruence. Qed.

Lemma wf_fresh n m k : wf (fresh n m k).
Proof.
  constructor; cbn; try (intros; lia); try tauto; try discriminate.
Qed.

Lemma pm_cases t m f n :
  let t' := fst (process_message t m f n) in
  let c := ctl_next (ctl_of t) (hs t) (ht t) m (flag_received f) in
  (check t m f n = false /\ t' = t) \/
  (check t m f n = true /\ st t' = c_st c /\ texec t' = c_exec c /\ tsub t' = c_sub c /\
   outs t' = addl (outs t) (adds t m (flag_received f)) /\ same_frame t t').
Proof.
  cbn zeta. destruct (check t m f n) eqn:C.
  - right. split; [reflexivity|].
    pose proof (pm_ctl t m f n C) as H. pose proof (pm_outs t m f n C) as Ho.
    pose proof (pm_frame t m f n) as Hf.
    rewrite st_ctl, texec_ctl, tsub_ctl, H. auto.
  - left. rewrite pm_ignored by exact C. auto.
Qed.

Lemma timer_next_ok y y' len : timer_next y = Some y' -> tm_len y = len ->
  tm_len y' = len /\ tm_num y' <= len /\ tm_num y' = S (tm_num y).
Proof.
  unfold timer_next. destruct (tm_num y <? tm_len y) eqn:E; [|discriminate].
  intros [= <-] <-. apply Nat.ltb_lt in E. cbn. lia.
Qed.
Lemma next_of_ok x y' len : timer_ok x len -> next_of x = Some y' ->
  tm_len y' = len /\ tm_num y' <= len /\ 0 < tm_num y'.
Proof.
  intros Hx. unfold next_of. destruct x as [y|]; [|discriminate]. intros H.
  destruct (Hx y eq_refl) as [Hl _].
  destruct (timer_next_ok _ _ _ H Hl) as (A & B & C). lia.
Qed.
Lemma timer_ok_reset x len : timer_ok x len -> timer_ok (reset_sub x) len.
Proof.
  intros H y. destruct x as [z|]; cbn; [|discriminate]. intros [= <-]. cbn.
  destruct (H z eq_refl). lia.
Qed.
Lemma timer_ok_some y len : tm_len y = len -> tm_num y <= len -> timer_ok (Some y) len.
Proof. intros A B z [= <-]. auto. Qed.

Ltac split_ifs :=
  repeat match goal with
  | |- context [if ?b then _ else _] => destruct b eqn:?
  | |- context [match next_of ?x with _ => _ end] => destruct (next_of x) eqn:?
  end.

Lemma psub_st_cases s : (s = Preparing /\ psub_st s = Submitted) \/ (s <> Preparing /\ psub_st s = s).
Proof. destruct s; cbn; auto; right; split; congruence. Qed.

Section WfPm.
  Variables (t : task) (m : msg) (f : flag) (n : Z).
  Hypothesis W : wf t.
  Hypothesis C : check t m f n = true.
  Let t' := fst (process_message t m f n).
  Let r := flag_received f.
  Let c := ctl_next (ctl_of t) (hs t) (ht t) m r.

  Lemma wfp_st : st t' = c_st c.
  Proof. destruct (pm_cases t m f n) as [[E _]|(_ & H & _)]; [congruence|exact H]. Qed.
  Lemma wfp_exec : texec t' = c_exec c.
  Proof. destruct (pm_cases t m f n) as [[E _]|(_ & _ & H & _)]; [congruence|exact H]. Qed.
  Lemma wfp_sub : tsub t' = c_sub c.
  Proof. destruct (pm_cases t m f n) as [[E _]|(_ & _ & _ & H & _)]; [congruence|exact H]. Qed.
  Lemma wfp_outs x : In x (outs t') <-> In x (outs t) \/ In x (adds t m r).
  Proof.
    destruct (pm_cases t m f n) as [[E _]|(_ & _ & _ & _ & H & _)]; [congruence|].
    cbn zeta in H. fold t' in H. rewrite H. apply In_addl.
  Qed.
  Lemma wfp_frame : same_frame t t'.
  Proof. apply pm_frame. Qed.

  Lemma wfp_hs : rk Submitted <= rk (st t') -> In OSubmitted (outs t').
  Proof.
    rewrite wfp_st, wfp_outs. unfold c, ctl_next, ctl_of. cbn [c_st c_exec c_sub].
    pose proof (wf_hs t W) as W1.
    destruct m; cbn [adds].
    - intros _. right. cbn. auto.
    - intros _. right. cbn. auto.
    - intros _. right. cbn. auto.
    - intros _. right. cbn. auto.
    - split_ifs; cbn [c_st]; intros H; try (left; apply W1; exact H); cbn in H; lia.
    - cbn. intros H. lia.
    - intros H. left. apply W1. exact H.
    - intros H. left. apply W1. exact H.
  Qed.

  Lemma wfp_ht : rk Running <= rk (st t') -> In OStarted (outs t').
  Proof.
    rewrite wfp_st, wfp_outs. unfold c, ctl_next, ctl_of. cbn [c_st c_exec c_sub].
    pose proof (wf_ht t W) as W2.
    destruct m; cbn [adds].
    - split_ifs; cbn [c_st]; intros H; left; apply W2; [exact H|].
      destruct (psub_st_cases (st t)) as [[_ E]|[_ E]]; rewrite E in H; [cbn in H; lia|exact H].
    - intros _. right. cbn. auto.
    - intros _. right. cbn. auto.
    - intros _. right. cbn. auto.
    - split_ifs; cbn [c_st]; intros H; try (left; apply W2; exact H); cbn in H; lia.
    - cbn. intros H. lia.
    - intros H. left. apply W2. exact H.
    - intros H. left. apply W2. exact H.
  Qed.

  Lemma wfp_closed : In OSucceeded (outs t') \/ In OFailed (outs t') ->
                     In OSubmitted (outs t') /\ In OStarted (outs t').
  Proof.
    rewrite !wfp_outs. pose proof (wf_closed t W) as W3.
    assert (K : In OSucceeded (outs t) \/ In OFailed (outs t) ->
                (In OSubmitted (outs t) \/ In OSubmitted (adds t m r)) /\
                (In OStarted (outs t) \/ In OStarted (adds t m r))) by (intros H; destruct (W3 H); auto).
    assert (A : In OSucceeded (adds t m r) \/ In OFailed (adds t m r) ->
                In OSubmitted (adds t m r) /\ In OStarted (adds t m r)).
    { destruct m; cbn [adds].
      - cbn. intuition congruence.
      - cbn. intuition congruence.
      - cbn. intuition congruence.
      - intros _. cbn. auto.
      - destruct (subfail_final t r); cbn; intuition congruence.
      - cbn. intuition congruence.
      - destruct (k <? cf_k t); cbn; intuition congruence.
      - cbn. tauto. }
    intros [[H|H]|[H|H]].
    - apply K. auto.
    - destruct (A (or_introl H)). auto.
    - apply K. auto.
    - destruct (A (or_intror H)). auto.
  Qed.

  Lemma wfp_texec : timer_ok (texec t') (cf_n t').
  Proof.
    destruct wfp_frame as (_ & Hn & _). rewrite wfp_exec, Hn.
    pose proof (wf_exec t W) as W4.
    unfold c, ctl_next, ctl_of. cbn [c_st c_exec c_sub].
    destruct m; split_ifs; cbn [c_exec]; try exact W4.
    match goal with H : next_of _ = Some _ |- _ => destruct (next_of_ok _ _ _ W4 H) as (A & B & _) end.
    apply timer_ok_some; auto.
  Qed.

  Lemma wfp_tsub : timer_ok (tsub t') (cf_m t').
  Proof.
    destruct wfp_frame as (_ & _ & Hm & _). rewrite wfp_sub, Hm.
    pose proof (wf_sub t W) as W5.
    unfold c, ctl_next, ctl_of, mid_sub. cbn [c_st c_exec c_sub].
    destruct m; split_ifs; cbn [c_sub]; try exact W5; try (apply timer_ok_reset; exact W5).
    match goal with H : next_of _ = Some _ |- _ => destruct (next_of_ok _ _ _ W5 H) as (A & B & _) end.
    apply timer_ok_some; auto.
  Qed.

  Lemma psub_st_eq s s' : psub_st s = s' -> s' <> Submitted -> s = s'.
  Proof. destruct s; cbn; intros <-; congruence. Qed.
  Lemma guard_false_at (b : bool) (x y : nat) : b && (x <? y) = true -> y <= x -> False.
  Proof. intros H L. apply andb_true_iff in H. destruct H as [_ H]. apply Nat.ltb_lt in H. lia. Qed.

  Lemma wfp_failed : st t' = Failed -> no_next (texec t') = true.
  Proof.
    rewrite wfp_st, wfp_exec. pose proof (wf_failed t W) as W6.
    unfold c, ctl_next, ctl_of, mid_st. cbn [c_st c_exec c_sub].
    destruct m; split_ifs; cbn [c_st c_exec]; intros H; try discriminate H; try (apply W6; exact H);
      try (apply W6; apply psub_st_eq in H; [exact H|discriminate]).
    all: try (exfalso; rewrite H in *; eapply guard_false_at; [eassumption|cbn; lia]).
    all: try (unfold no_next; match goal with E : next_of _ = None |- _ => rewrite E end; reflexivity).
  Qed.

  Lemma wfp_subfailed : st t' = SubmitFailed -> no_next (tsub t') = true.
  Proof.
    rewrite wfp_st, wfp_sub. pose proof (wf_subfailed t W) as W7.
    unfold c, ctl_next, ctl_of, mid_st, mid_sub. cbn [c_st c_exec c_sub].
    destruct m; split_ifs; cbn [c_st c_sub]; intros H; try discriminate H; try (apply W7; exact H);
      try (apply W7; apply psub_st_eq in H; [exact H|discriminate]).
    all: try (exfalso; rewrite H in *; eapply guard_false_at; [eassumption|cbn; lia]).
    all: try (unfold no_next; match goal with E : next_of _ = None |- _ => rewrite E end; reflexivity).
  Qed.

  Lemma check_waiting_expired : st t = Waiting -> retry_lined_up t = true -> m = MExpired.
  Proof.
    intros S L. unfold check in C. rewrite S, L in C. cbn in C.
    destruct (flag_received f && negb (n =? Z.of_nat (sn t))%Z); [discriminate|].
    destruct m; cbn in C; try discriminate. reflexivity.
  Qed.

  Lemma wfp_wait : st t' = Waiting -> 0 < sn t' -> retry_lined_up t' = true.
  Proof.
    destruct wfp_frame as (Hsn & _). rewrite Hsn. unfold retry_lined_up. rewrite wfp_st, wfp_exec, wfp_sub.
    pose proof (wf_wait t W) as W8. pose proof (wf_exec t W) as W4. pose proof (wf_sub t W) as W5.
    assert (NB : st t = Waiting -> 0 < sn t -> m = MExpired)
      by (intros S L; apply check_waiting_expired; auto).
    unfold c, ctl_next, ctl_of, mid_st, mid_sub. cbn [c_st c_exec c_sub].
    destruct m; split_ifs; cbn [c_st c_exec c_sub]; intros H L; try discriminate H;
      try (specialize (NB H L); discriminate NB);
      try (apply psub_st_eq in H; [|discriminate]; specialize (NB H L); discriminate NB).
    all: try (match goal with E : next_of (texec t) = Some _ |- _ =>
                destruct (next_of_ok _ _ _ W4 E) as (_ & _ & P) end;
              cbn [timer_lined_up]; apply Nat.ltb_lt in P; rewrite P; apply orb_true_r).
    all: try (match goal with E : next_of (tsub t) = Some _ |- _ =>
                destruct (next_of_ok _ _ _ W5 E) as (_ & _ & P) end;
              cbn [timer_lined_up]; apply Nat.ltb_lt in P; rewrite P; reflexivity).
  Qed.

  Lemma wfp_sn0 : sn t' = 0 -> texec t' = None /\ tsub t' = None.
  Proof.
    destruct wfp_frame as (Hsn & _). rewrite Hsn, wfp_exec, wfp_sub. intros Z0.
    destruct (wf_sn0 t W Z0) as [E1 E2].
    unfold c, ctl_next, ctl_of, mid_sub. cbn [c_st c_exec c_sub]. rewrite E1, E2.
    destruct m; cbn [next_of reset_sub]; split_ifs; cbn [c_exec c_sub reset_sub]; auto.
  Qed.

  Lemma wfp_prep0 : st t' = Preparing -> 0 < sn t'.
  Proof.
    destruct wfp_frame as (Hsn & _). rewrite Hsn, wfp_st. pose proof (wf_prep0 t W) as W10.
    unfold c, ctl_next, ctl_of, mid_st. cbn [c_st c_exec c_sub].
    destruct m; split_ifs; cbn [c_st]; intros H; try discriminate H; try (apply W10; exact H);
      try (apply W10; apply psub_st_eq in H; [exact H|discriminate]).
  Qed.
End WfPm.

Lemma wf_pm t m f n : wf t -> wf (fst (process_message t m f n)).
Proof.
  intros W. destruct (check t m f n) eqn:C.
  - constructor.
    + apply wfp_hs; assumption.
    + apply wfp_ht; assumption.
    + apply wfp_closed; assumption.
    + apply wfp_texec; assumption.
    + apply wfp_tsub; assumption.
    + apply wfp_failed; assumption.
    + apply wfp_subfailed; assumption.
    + apply wfp_wait; assumption.
    + apply wfp_sn0; assumption.
    + apply wfp_prep0; assumption.
  - rewrite pm_ignored by exact C. exact W.
Qed.

Lemma wf_prep t : wf t -> preppable t = true -> wf (prep_raw t).
Proof.
  intros W P. unfold preppable in P. apply orb_true_iff in P.
  destruct W as [W1 W2 W3 W4 W5 W6 W7 W8 W9 W10].
  unfold prep_raw. destruct (status_eqb (st t) Preparing) eqn:E.
  - apply status_eqb_eq in E.
    constructor; cbn; rewrite ?E; cbn; try (intros; lia); try discriminate; auto.
    + intros y. destruct (texec t) as [z|] eqn:Z; cbn; intros [= <-]; cbn; [destruct (W4 z eq_refl)|]; lia.
    + intros y. destruct (tsub t) as [z|] eqn:Z; cbn; intros [= <-]; cbn; [destruct (W5 z eq_refl)|]; lia.
    + intros Z0. specialize (W10 E). lia.
  - destruct P as [P|P]; [|congruence]. apply status_eqb_eq in P.
    constructor; cbn; try (intros; lia); try discriminate; auto.
    + intros y. destruct (texec t) as [z|] eqn:Z; cbn; intros [= <-]; cbn; [destruct (W4 z eq_refl)|]; lia.
    + intros y. destruct (tsub t) as [z|] eqn:Z; cbn; intros [= <-]; cbn; [destruct (W5 z eq_refl)|]; lia.
Qed.

Lemma wf_step t o : wf t -> wf (fst (step t o)).
Proof.
  intros W. destruct o as [|ok|m f rel]; cbn [step].
  - destruct (preppable t) eqn:P; cbn [fst]; [apply wf_prep; assumption|exact W].
  - apply wf_pm. exact W.
  - apply wf_pm. exact W.
Qed.

Lemma wf_run n m k ops : wf (final (fresh n m k) ops).
Proof. apply (run_invariant wf wf_step). apply wf_fresh. Qed.
