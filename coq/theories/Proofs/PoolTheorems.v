(* Proofs/PoolTheorems.v — what acceptance by the pool monitor implies, property by property *)
From Coq Require Import List Bool Arith ZArith Lia.
From Cylc Require Import Base.Util Model.Pool Proofs.PoolProofs.
Import ListNotations.
Open Scope Z_scope.

(* ------------------------------------------------------------------ *)
(* the [done] list is exactly the record of EOutput events              *)
(* ------------------------------------------------------------------ *)
Ltac kill_if H :=
  repeat match type of H with
  | (if ?b then Err _ else _) = Ok _ => destruct b; [discriminate H|]
  | (if ?b then _ else Err _) = Ok _ => destruct b; [|discriminate H]
  end.

Lemma step_done c s e s' k :
  step c s e = Ok s' -> In k (done s') ->
  In k (done s) \/ e = EOutput (fst k) (snd k) \/ e = EStaleOutput (fst k) (snd k).
Proof.
  intros H. destruct e; cbn [step] in H.
  - destruct (find_inst (c_insts c) t); [|discriminate]. kill_if H. injection H as <-. cbn.
    destruct held; [rewrite (proj1 (proj2 (proj2 (add_hold_fields s t))))|]; auto.
  - destruct (find_task (limbo s) t); [|discriminate]. kill_if H. injection H as <-. auto.
  - destruct (lookup s t) as [[p inp]|]; [|discriminate]. destruct (find_inst (c_insts c) t); [|discriminate].
    kill_if H. injection H as <-. rewrite store_done. auto.
  - destruct (lookup s t) as [[p inp]|].
    + kill_if H. injection H as <-. cbn. intros [<-|Hk]; auto.
    + injection H as <-. cbn. intros [<-|Hk]; auto.
  - destruct (lookup s t) as [[p inp]|].
    + destruct (find_inst (c_insts c) t); [|discriminate].
      kill_if H. injection H as <-. rewrite store_done.
      destruct (h && negb (p_held p)); [rewrite (proj1 (proj2 (proj2 (add_hold_fields s t))))|]; auto.
    + destruct h; injection H as <-; [rewrite (proj1 (proj2 (proj2 (add_hold_fields s t))))|]; auto.
  - injection H as <-. auto.
  - kill_if H. injection H as <-. auto.
  - destruct (find_task (pool s) t); [|discriminate]. destruct (find_inst (c_insts c) t); [|discriminate].
    kill_if H. injection H as <-. auto.
  - destruct (find_task (pool s) t); [|discriminate]. destruct (find_inst (c_insts c) t); [|discriminate].
    kill_if H. injection H as <-. auto.
  - destruct (pool s); [injection H as <-; auto|]. destruct (option_eqb Z.eqb l (spec_limit c s)).
    + injection H as <-; auto.
    + kill_if H. injection H as <-; auto.
  - destruct (lookup s t) as [[p inp]|]; [|discriminate]. injection H as <-. rewrite store_done. auto.
  - kill_if H. injection H as <-. auto.
  - injection H as <-. intros Hk. left. revert Hk. clear. revert s.
    induction ids as [|t r IH]; intros s; cbn; [auto|]. intros Hk. apply IH in Hk.
    now rewrite (proj1 (proj2 (proj2 (add_hold_fields s t)))) in Hk.
  - injection H as <-. auto.
  - injection H as <-. auto.
  - injection H as <-. auto.
  - injection H as <-. auto.
  - injection H as <-. auto.
  - destruct (crash_mode s).
    + destruct (find_inst (c_insts c) (v_id v)); [|discriminate]. kill_if H. injection H as <-. auto.
    + destruct (find_task (saved s) (v_id v)); [|discriminate]. kill_if H. injection H as <-. auto.
  - destruct (crash_mode s); [injection H as <-; auto|].
    destruct (saved s); [injection H as <-; auto|discriminate].
  - destruct (find_task (limbo s) t); [|discriminate]. kill_if H. injection H as <-. auto.
  - destruct (find_inst (c_insts c) t); [|discriminate]. kill_if H. injection H as <-. auto.
  - destruct (lookup s t) as [[p inp]|]; [|injection H as <-; auto].
    destruct (find_inst (c_insts c) t); [|discriminate]. kill_if H. injection H as <-. rewrite store_done. auto.
  - destruct (lookup s t) as [[p inp]|]; [|injection H as <-; auto]. kill_if H. injection H as <-.
    rewrite store_done. auto.
  - destruct (lookup s t) as [[p inp]|]; injection H as <-; [rewrite store_done|]; auto.
  - injection H as <-. cbn. intros Hk. apply filter_In in Hk. left. tauto.
  - injection H as <-. auto.
  - kill_if H. injection H as <-. auto.
  - injection H as <-. auto.
  - injection H as <-. auto.
  - injection H as <-. auto.
  - destruct (stop_task s); [|discriminate]. kill_if H. injection H as <-. auto.
  - kill_if H. destruct m; kill_if H; injection H as <-; auto.
  - kill_if H. injection H as <-. auto.
  - kill_if H. injection H as <-. auto.
  - kill_if H. injection H as <-. auto.
  - injection H as <-. cbn. intros [<-|Hk]; auto.
  - injection H as <-. rewrite (proj1 (proj2 (proj2 (add_hold_fields s t)))). auto.
  - injection H as <-. auto.
  - kill_if H. injection H as <-. auto.
  - destruct (crash_mode s); [injection H as <-; auto|]. kill_if H. injection H as <-. auto.
Qed.

Lemma exec_done c tr : forall s s' k,
  exec c s tr = Some s' -> In k (done s') -> In k (done s) \/ emitted tr k.
Proof.
  unfold emitted. induction tr as [|e r IH]; intros s s' k; cbn.
  - intros [= <-]. auto.
  - destruct (step c s e) as [s1|] eqn:E; [|discriminate]. intros H Hk.
    destruct (IH _ _ _ H Hk) as [Hd|[Hd|Hd]]; [|auto|auto].
    destruct (step_done _ _ _ _ _ E Hd) as [Hd'|[Heq|Heq]]; [auto|right; left; left; exact Heq|right; right; left; exact Heq].
Qed.

(* ------------------------------------------------------------------ *)
(* C26                                                                  *)
(* ------------------------------------------------------------------ *)
Theorem pool_no_duplicates c tr s :
  exec c (init_state c) tr = Some s -> NoDup (map p_id (pool s)).
Proof. intros H. apply (inv_nodup c s). eapply reachable_Inv; eauto. Qed.

(* acceptance of a tick end means the abstract pool IS the reported pool *)
Theorem tick_end_pool_agrees c s snap hl hp s' :
  step c s (ETickEnd snap hl hp) = Ok s' ->
  length snap = length (pool s) /\
  forall v, In v snap -> exists p, find_task (pool s) (v_id v) = Some p /\ view_matches p v = true.
Proof.
  cbn [step]. destruct (negb (Nat.eqb (length snap) (length (pool s)))) eqn:E1; [discriminate|].
  destruct (negb (same_tids hl (to_hold s) && option_eqb Z.eqb hp (hold_pt s))); [discriminate|].
  destruct (negb (forallb (fun p => Bool.eqb (p_held p) (mem tid_eqb (p_id p) (to_hold s))) (pool s))); [discriminate|].
  destruct (negb (forallb _ snap)) eqn:E2; [discriminate|]. intros _.
  apply negb_false_iff in E1, E2. apply Nat.eqb_eq in E1. split; [exact E1|].
  rewrite forallb_forall in E2. intros v Hv. specialize (E2 v Hv).
  destruct (find_task (pool s) (v_id v)) as [p|]; [eauto|discriminate].
Qed.

(* ------------------------------------------------------------------ *)
(* C07                                                                  *)
(* ------------------------------------------------------------------ *)
Theorem pool_on_sequence_in_bounds c tr s p :
  exec c (init_state c) tr = Some s -> In p (pool s) -> valid_id c (p_id p).
Proof. intros H Hp. apply (inv_valid c s); [eapply reachable_Inv; eauto|now left]. Qed.

(* ------------------------------------------------------------------ *)
(* C01                                                                  *)
(* ------------------------------------------------------------------ *)
Theorem submit_only_when_satisfied c tr1 tr2 t sn sf :
  exec c (init_state c) (tr1 ++ ESubmit t sn :: tr2) = Some sf ->
  exists s1 p i,
    exec c (init_state c) tr1 = Some s1 /\
    find_task (pool s1) t = Some p /\ find_inst (c_insts c) t = Some i /\
    valid_id c t /\ p_status p = Preparing /\
    (p_manual p = true \/
     forall e, In e (i_pre i) ->
       bx_holds (fun k => emitted tr1 k \/ In k (p_forced p)) e).
Proof.
  intros H. apply exec_app in H. destruct H as [s1 [H1 H2]].
  cbn [exec] in H2. destruct (step c s1 (ESubmit t sn)) as [s2|] eqn:Es; [|discriminate].
  pose proof (reachable_Inv _ _ _ H1) as I.
  cbn [step] in Es.
  destruct (find_task (pool s1) t) as [p|] eqn:Ef; [|discriminate].
  destruct (find_inst (c_insts c) t) as [i|] eqn:Ei; [|discriminate].
  destruct (negb (status_eqb (p_status p) Preparing)) eqn:Ep; [discriminate|].
  apply negb_false_iff, status_eqb_eq in Ep.
  apply find_task_In in Ef as Hf. destruct Hf as [Hin Hid].
  exists s1, p, i. repeat split; auto.
  - rewrite <- Hid. apply (inv_valid c s1 I). now left.
  - rewrite <- Hid. apply (inv_valid c s1 I). now left.
  - rewrite <- Hid. apply (inv_valid c s1 I). now left.
  - assert (Hn : needs_ok p = true) by (unfold needs_ok; rewrite Ep; reflexivity).
    assert (Hi : find_inst (c_insts c) (p_id p) = Some i) by (rewrite Hid; exact Ei).
    destruct (inv_ok c s1 I p i (or_introl Hin) Hi Hn) as [Hm|Hok]; [now left|right].
    intros e He. unfold prereqs_ok in Hok. rewrite forallb_forall in Hok.
    eapply bx_eval_holds; [|apply Hok; exact He].
    intros k Hk. apply sat_of_spec in Hk. destruct Hk as [Hk|Hk]; [left|right; exact Hk].
    pose proof (inv_sat c s1 I p k (or_introl Hin) Hk) as Hd.
    destruct (exec_done _ _ _ _ _ H1 Hd) as [[]|Ho]. exact Ho.
Qed.

(* ------------------------------------------------------------------ *)
(* C02 / C20                                                            *)
(* ------------------------------------------------------------------ *)
Theorem submissions_distinct c tr s :
  exec c (init_state c) tr = Some s -> NoDup (subs s).
Proof. intros H. apply (inv_subs c s). eapply reachable_Inv; eauto. Qed.

Theorem submit_within_try_bound c s t sn s' :
  step c s (ESubmit t sn) = Ok s' ->
  exists p i, find_task (pool s) t = Some p /\ find_inst (c_insts c) t = Some i /\
    (p_manual p = true \/
     (count_true (fun x => tid_eqb (fst x) t) (subs s) < i_tries i)%nat) /\
    ~ In (t, sn) (subs s).
Proof.
  cbn [step]. destruct (find_task (pool s) t) as [p|]; [|discriminate].
  destruct (find_inst (c_insts c) t) as [i|]; [|discriminate].
  destruct (negb (status_eqb _ _)); [discriminate|].
  destruct (mem (pair_eqb tid_eqb Nat.eqb) (t, sn) (subs s)) eqn:Em; [discriminate|].
  destruct (negb (Nat.ltb _ (i_tries i)) && negb (p_manual p)) eqn:Eb; [discriminate|].
  destruct (Z.ltb (stop_point s) (fst t) && negb (p_manual p)); [discriminate|].
  intros _. exists p, i. repeat split; auto.
  - apply andb_false_iff in Eb. destruct Eb as [Eb|Eb].
    + right. apply negb_false_iff, Nat.ltb_lt in Eb. exact Eb.
    + left. now apply negb_false_iff in Eb.
  - intros Hc. apply (mem_In _ pair_eqb_sub_eq) in Hc. congruence.
Qed.

(* ------------------------------------------------------------------ *)
(* C04                                                                  *)
(* ------------------------------------------------------------------ *)
Theorem runahead_release_within_limit c s t st h q s' p inp :
  step c s (EState t st h q false) = Ok s' ->
  lookup s t = Some (p, inp) -> p_runahead p = true -> p_manual p = false -> is_final (p_status p) = false ->
  exists l, limit s = Some l /\ fst (p_id p) <= l.
Proof.
  cbn [step]. intros H El Hr Hm Hf. rewrite El in H.
  destruct (find_inst (c_insts c) t); [|discriminate].
  destruct (_ && _) in H; [discriminate|]. destruct (_ && _) in H; [discriminate|].
  destruct (negb false && p_runahead p && negb (within_limit s p) && negb (p_manual p) && negb (is_final (p_status p))) eqn:E;
    [discriminate|].
  rewrite Hr, Hm, Hf in E. cbn in E. rewrite !andb_true_r in E. apply negb_false_iff in E.
  unfold within_limit in E. destruct (limit s) as [l|]; [|discriminate].
  exists l. split; [reflexivity|]. now apply Z.leb_le.
Qed.

Lemma option_Z_eqb_eq a b : option_eqb Z.eqb a b = true -> a = b.
Proof.
  destruct a as [x|], b as [y|]; cbn; intros E; try discriminate; auto. apply Z.eqb_eq in E. now subst.
Qed.

(* the accepted limit is the specification for the current pool -- or (finding C04: the code's
   early return) the previous limit when that already sits at the stop point *)
Theorem limit_is_spec c s l s' :
  step c s (ELimit l) = Ok s' -> pool s <> [] ->
  (l = spec_limit c s \/ (limit s = Some (stop_point s) /\ l = limit s)) /\ limit s' = l.
Proof.
  cbn [step]. destruct (pool s) eqn:Ep; [congruence|]. intros H _.
  destruct (option_eqb Z.eqb l (spec_limit c s)) eqn:E.
  - injection H as <-. split; [left; now apply option_Z_eqb_eq|reflexivity].
  - destruct (option_eqb Z.eqb (limit s) (Some (stop_point s)) && option_eqb Z.eqb l (limit s)) eqn:E2; [|discriminate].
    injection H as <-. apply andb_true_iff in E2. destruct E2 as [A B].
    split; [right; split; now apply option_Z_eqb_eq|reflexivity].
Qed.

Lemma nth_or_last_ge n : forall l d b, (forall x, In x l -> b <= x) -> b <= d -> b <= nth_or_last n l d.
Proof.
  induction n as [|n IH]; intros l d b Hl Hd; destruct l as [|x r]; cbn; auto.
  - apply Hl. now left.
  - apply IH; [intros y Hy; apply Hl; now right|apply Hl; now left].
Qed.
Lemma nth_or_last_In n : forall l d, l <> [] -> In (nth_or_last n l d) l.
Proof.
  induction n as [|n IH]; intros l d Hl; destruct l as [|x r]; cbn; try congruence; [now left|].
  destruct r as [|y r']; [destruct n; cbn; now left|]. right. apply IH. discriminate.
Qed.

Lemma max_future_nonneg c pl : 0 <= max_future c pl.
Proof. unfold max_future. induction pl as [|p r IH]; cbn [fold_right]; lia. Qed.

(* the limit never blocks the earliest cycle point of the pool *)
Theorem spec_limit_ge_base c s b l :
  min_point (pool s) = Some b -> b <= stop_point s -> spec_limit c s = Some l -> b <= l.
Proof.
  unfold spec_limit. intros -> Hs [= <-]. apply Z.min_glb; [|exact Hs].
  pose proof (max_future_nonneg c (pool s)) as Hf.
  assert (b <= nth_or_last (c_runahead c) (filter (fun x => b <=? x) (c_points c)) b); [|lia].
  apply nth_or_last_ge; [|lia]. intros x Hx. apply filter_In in Hx. destruct Hx as [_ Hx]. now apply Z.leb_le.
Qed.

(* the limit is a sequence point at or after the base (or the base itself), pushed out by the largest
   future-trigger offset among the pooled tasks, or the stop point *)
Theorem spec_limit_on_sequence c s b l :
  min_point (pool s) = Some b -> spec_limit c s = Some l ->
  l = stop_point s \/ l = b + max_future c (pool s) \/
  (exists x, In x (c_points c) /\ b <= x /\ l = x + max_future c (pool s)).
Proof.
  unfold spec_limit. intros -> [= <-].
  destruct (Z.min_spec (nth_or_last (c_runahead c) (filter (fun x => b <=? x) (c_points c)) b + max_future c (pool s))
                       (stop_point s))
    as [[_ ->]|[_ ->]]; [|now left]. right.
  destruct (filter (fun x => b <=? x) (c_points c)) as [|x r] eqn:Ef.
  - left. destruct (c_runahead c); reflexivity.
  - right. assert (Hin : In (nth_or_last (c_runahead c) (x :: r) b) (x :: r)) by (apply nth_or_last_In; discriminate).
    rewrite <- Ef in Hin at 2. apply filter_In in Hin. destruct Hin as [H1 H2].
    eexists. split; [exact H1|]. split; [now apply Z.leb_le|reflexivity].
Qed.

(* without future triggers among the pooled tasks the adjustment vanishes *)
Theorem max_future_none c pl :
  (forall p, In p pl -> fut_of c p = 0) -> max_future c pl = 0.
Proof.
  unfold max_future. induction pl as [|p r IH]; cbn [fold_right]; intros H; [reflexivity|].
  rewrite (H p (or_introl eq_refl)), IH; [reflexivity|]. intros q Hq. apply H. now right.
Qed.

(* ------------------------------------------------------------------ *)
(* C03                                                                  *)
(* ------------------------------------------------------------------ *)
Theorem auto_shutdown_guard c s s' :
  step c s EShutdownAuto = Ok s' ->
  forall p, In p (pool s) ->
    is_active (p_status p) = false /\
    (p_status p = Waiting -> p_runahead p = true) /\
    (fst (p_id p) <= stop_point s ->
       is_final (p_status p) = false /\ (p_status p = Waiting -> p_sat p = [])).
Proof.
  cbn [step].
  destruct (existsb (fun p => is_active (p_status p)) (pool s)) eqn:E1; [discriminate|].
  destruct (existsb (fun p => status_eqb (p_status p) Waiting && negb (p_runahead p)) (pool s)) eqn:E2; [discriminate|].
  destruct (existsb (fun p => is_final (p_status p) && Z.leb (fst (p_id p)) (stop_point s)) (pool s)) eqn:E3; [discriminate|].
  destruct (existsb (fun p => status_eqb (p_status p) Waiting && Z.leb (fst (p_id p)) (stop_point s)
                                && negb (Nat.eqb (List.length (p_sat p)) 0)) (pool s)) eqn:E4; [discriminate|].
  intros _ p Hp.
  assert (F : forall (f : ptask -> bool), existsb f (pool s) = false -> f p = false).
  { intros f Hf. destruct (f p) eqn:Efp; [|reflexivity].
    assert (existsb f (pool s) = true) by (apply existsb_exists; eauto). congruence. }
  apply F in E1, E2, E3, E4. repeat split.
  - exact E1.
  - intros Hw. rewrite Hw in E2. cbn in E2. now apply negb_false_iff in E2.
  - apply Z.leb_le in H. rewrite H, andb_true_r in E3. exact E3.
  - intros Hw. apply Z.leb_le in H. rewrite Hw, H in E4. cbn in E4.
    apply negb_false_iff, Nat.eqb_eq in E4. destruct (p_sat p); [reflexivity|discriminate].
Qed.

(* a tick end is accepted only if no ready task has been left unqueued, and no task within the
   runahead limit left unreleased, for [max_idle] consecutive iterations *)
Theorem tick_end_progress c s snap hl hp s' :
  step c s (ETickEnd snap hl hp) = Ok s' ->
  forall p, In p (pool s') -> (p_idle p < max_idle)%nat /\ (p_lag p < max_idle)%nat.
Proof.
  cbn [step].
  destruct (negb (Nat.eqb _ _)); [discriminate|].
  destruct (negb (same_tids hl (to_hold s) && option_eqb Z.eqb hp (hold_pt s))); [discriminate|].
  destruct (negb (forallb (fun p => Bool.eqb (p_held p) (mem tid_eqb (p_id p) (to_hold s))) (pool s))); [discriminate|].
  destruct (negb (forallb _ snap)); [discriminate|].
  destruct (existsb (fun p => Nat.leb max_idle (p_idle p)) _) eqn:E1; [discriminate|].
  destruct (existsb (fun p => Nat.leb max_idle (p_lag p)) _) eqn:E2; [discriminate|].
  destruct (negb (forallb _ (pool s))); [discriminate|]. destruct (existsb _ (pool s)); [discriminate|].
  intros [= <-] p Hp. cbn in Hp.
  assert (F : forall (f : ptask -> bool) l, existsb f l = false -> In p l -> f p = false).
  { intros f l Hf Hin. destruct (f p) eqn:Efp; [|reflexivity].
    assert (existsb f l = true) by (apply existsb_exists; eauto). congruence. }
  pose proof (F _ _ E1 Hp) as H1. pose proof (F _ _ E2 Hp) as H2. cbn beta in H1, H2.
  apply Nat.leb_gt in H1, H2. split; assumption.
Qed.

(* ------------------------------------------------------------------ *)
(* C09                                                                  *)
(* ------------------------------------------------------------------ *)
Inductive lifecycle : status -> status -> Prop :=
| lc_prep : lifecycle Waiting Preparing
| lc_expire : lifecycle Waiting Expired
| lc_p_sub : lifecycle Preparing Submitted
| lc_p_sf : lifecycle Preparing SubmitFailed
| lc_p_run : lifecycle Preparing Running
| lc_p_succ : lifecycle Preparing Succeeded
| lc_p_fail : lifecycle Preparing Failed
| lc_s_run : lifecycle Submitted Running
| lc_s_succ : lifecycle Submitted Succeeded
| lc_s_fail : lifecycle Submitted Failed
| lc_s_sf : lifecycle Submitted SubmitFailed
| lc_r_succ : lifecycle Running Succeeded
| lc_r_fail : lifecycle Running Failed
| lc_retry_p : lifecycle Preparing Waiting
| lc_retry_s : lifecycle Submitted Waiting
| lc_retry_r : lifecycle Running Waiting.

Lemma trans_ok_lifecycle p a b : trans_ok p a b = true -> lifecycle a b.
Proof. destruct a, b; cbn; intros H; try discriminate; constructor. Qed.

Theorem status_change_follows_lifecycle c s t st h q r s' p inp :
  step c s (EState t st h q r) = Ok s' -> lookup s t = Some (p, inp) ->
  st = p_status p \/ p_manual p = true \/
  (lifecycle (p_status p) st /\
   (p_status p = Waiting -> st = Preparing -> p_rel p = true \/ p_manual p = true) /\
   (st = Preparing -> p_held p = true -> p_manual p = true)).
Proof.
  cbn [step]. intros H El. rewrite El in H.
  destruct (find_inst (c_insts c) t); [|discriminate].
  destruct (negb (status_eqb st (p_status p)) && negb (trans_ok p (p_status p) st) && negb (p_manual p)) eqn:E1;
    [discriminate|].
  destruct (_ && _) in H; [discriminate|]. destruct (_ && _) in H; [discriminate|].
  destruct (status_eqb st Preparing && negb (status_eqb (p_status p) Preparing) && p_held p && negb (p_manual p)) eqn:E4;
    [discriminate|].
  destruct (status_eqb st (p_status p)) eqn:Es; [left; now apply status_eqb_eq|right].
  destruct (p_manual p) eqn:Em; [now left|right].
  cbn in E1. rewrite andb_true_r in E1. apply negb_false_iff in E1. split; [eapply trans_ok_lifecycle; eauto|]. split.
  - intros Hw ->. rewrite Hw in E1. cbn in E1. rewrite Em in E1. now apply orb_true_iff in E1.
  - intros -> Hh. rewrite Hh in E4. cbn in E4.
    destruct (status_eqb (p_status p) Preparing) eqn:Ep.
    + apply status_eqb_eq in Ep. rewrite Ep in Es. discriminate.
    + cbn in E4. rewrite ?Em in E4. cbn in E4. discriminate.
Qed.

(* ------------------------------------------------------------------ *)
(* C11                                                                  *)
(* ------------------------------------------------------------------ *)
Theorem removed_as_complete_is_complete c s t s' :
  step c s (ERemove t true) = Ok s' ->
  exists p i, find_task (pool s) t = Some p /\ find_inst (c_insts c) t = Some i /\
    is_final (p_status p) = true /\ cx_eval (has_out (p_outs p)) (i_comp i) = true.
Proof.
  cbn [step]. destruct (find_task (pool s) t) as [p|]; [|discriminate].
  destruct (find_inst (c_insts c) t) as [i|]; [|discriminate].
  destruct (is_final (p_status p) && cx_eval (has_out (p_outs p)) (i_comp i)) eqn:E; cbn; [|discriminate].
  intros _. apply andb_true_iff in E. exists p, i. tauto.
Qed.

Theorem finished_complete_not_retained c s snap hl hp s' :
  step c s (ETickEnd snap hl hp) = Ok s' ->
  forall p i, In p (pool s) -> find_inst (c_insts c) (p_id p) = Some i ->
    is_final (p_status p) = true -> cx_eval (has_out (p_outs p)) (i_comp i) = false.
Proof.
  cbn [step].
  destruct (negb (Nat.eqb _ _)); [discriminate|].
  destruct (negb (same_tids hl (to_hold s) && option_eqb Z.eqb hp (hold_pt s))); [discriminate|].
  destruct (negb (forallb (fun p => Bool.eqb (p_held p) (mem tid_eqb (p_id p) (to_hold s))) (pool s))); [discriminate|].
  destruct (negb (forallb _ snap)); [discriminate|].
  destruct (existsb _ _); [discriminate|]. destruct (existsb _ _); [discriminate|].
  destruct (negb (forallb _ (pool s))); [discriminate|].
  destruct (existsb _ (pool s)) eqn:E; [discriminate|]. intros _ p i Hp Hi Hf.
  destruct (cx_eval (has_out (p_outs p)) (i_comp i)) eqn:Ec; [|reflexivity].
  assert (existsb (fun p0 => match find_inst (c_insts c) (p_id p0) with
            | Some i0 => is_final (p_status p0) && cx_eval (has_out (p_outs p0)) (i_comp i0)
            | None => false end) (pool s) = true).
  { apply existsb_exists. exists p. split; [exact Hp|]. rewrite Hi, Hf, Ec. reflexivity. }
  congruence.
Qed.

(* ------------------------------------------------------------------ *)
(* C05 (pool level)                                                     *)
(* ------------------------------------------------------------------ *)
(* released now for the first time, not counting manually triggered tasks (which may exceed a limit) *)
Definition newly_released (s : mstate) (l : list tid) : list tid :=
  filter (fun t => match find_task (pool s) t with
                   | Some p => negb (p_rel p) && negb (p_manual p) | None => true end) l.
Definition count_in_queue (c : cfg) (q : nat) (l : list tid) : nat :=
  count_true (fun t => match find_inst (c_insts c) t with
                       | Some i => Nat.eqb (i_queue i) q | None => false end) l.

Theorem release_respects_queue_limits c s l s' :
  step c s (ERelease l) = Ok s' ->
  (forall t, In t l -> exists p, find_task (pool s) t = Some p /\ (p_held p = false \/ p_manual p = true)) /\
  forall q, (q < length (c_qlimits c))%nat -> qlimit c q <> 0%nat ->
    count_in_queue c q (newly_released s l) <> 0%nat ->
    (active_in c s q + count_in_queue c q (newly_released s l) <= qlimit c q)%nat.
Proof.
  intros H. cbn [step] in H.
  match type of H with (if negb (forallb ?f l) then _ else _) = _ => set (chk := f) in * end.
  destruct (negb (forallb chk l)) eqn:E1; [discriminate|].
  match type of H with (if negb (release_ok c s ?n) then _ else _) = _ => change n with (newly_released s l) in H end.
  destruct (negb (release_ok c s (newly_released s l))) eqn:E2; [discriminate|]. clear H.
  apply negb_false_iff in E1, E2. rewrite forallb_forall in E1. split.
  - intros t Ht. specialize (E1 t Ht). unfold chk in E1.
    destruct (find_task (pool s) t) as [p|]; [|discriminate]. exists p. split; [reflexivity|].
    destruct (find_inst (c_insts c) t); [|discriminate].
    rewrite !andb_true_iff in E1. destruct E1 as [[_ E1] _]. apply orb_true_iff in E1.
    destruct E1 as [E1|E1]; [left; now apply negb_true_iff in E1|now right].
  - intros q Hq Hlim Hn. unfold release_ok in E2. rewrite forallb_forall in E2.
    assert (Hin : In q (seq 0 (length (c_qlimits c)))) by (apply in_seq; lia).
    specialize (E2 q Hin). cbn zeta in E2. fold (count_in_queue c q (newly_released s l)) in E2.
    apply orb_true_iff in E2. destruct E2 as [E2|E2]; [apply Nat.eqb_eq in E2; congruence|].
    apply orb_true_iff in E2. destruct E2 as [E2|E2]; [apply Nat.eqb_eq in E2; congruence|].
    apply Nat.leb_le in E2. exact E2.
Qed.

(* ------------------------------------------------------------------ *)
(* C06 (pool level): held tasks are neither queued, released nor prepared *)
(* ------------------------------------------------------------------ *)
Theorem held_not_queued c s t st h s' p inp r :
  step c s (EState t st h true r) = Ok s' -> lookup s t = Some (p, inp) -> p_queued p = false ->
  p_manual p = false -> h = false.
Proof.
  cbn [step]. intros H El Hq Hm. rewrite El in H.
  destruct (find_inst (c_insts c) t) as [i|]; [|discriminate].
  destruct (_ && _) in H; [discriminate|].
  destruct (true && negb (p_queued p) && negb (ready i (set_flags p h false r)) && negb (p_manual p)) eqn:E2;
    [discriminate|].
  rewrite Hq, Hm in E2. cbn in E2. rewrite andb_true_r in E2. apply negb_false_iff in E2. unfold ready in E2. cbn in E2.
  rewrite !andb_true_iff in E2. destruct E2 as [[[_ E2] _] _]. now apply negb_true_iff in E2.
Qed.

(* ------------------------------------------------------------------ *)
(* C45 (pool level)                                                     *)
(* ------------------------------------------------------------------ *)
Theorem abs_output_really_done c s k s' :
  step c s (EAbs k) = Ok s' -> In k (done s).
Proof.
  cbn [step]. destruct (out_done s (fst k) (snd k)) eqn:E; [|discriminate]. intros _.
  unfold out_done in E. apply mem_key_In in E. destruct k; exact E.
Qed.

Theorem abs_outputs_reflected_at_tick_end c s snap hl hp s' :
  step c s (ETickEnd snap hl hp) = Ok s' ->
  forall p i, In p (pool s) -> find_inst (c_insts c) (p_id p) = Some i -> abs_reflected s i p = true.
Proof.
  cbn [step].
  destruct (negb (Nat.eqb _ _)); [discriminate|].
  destruct (negb (same_tids hl (to_hold s) && option_eqb Z.eqb hp (hold_pt s))); [discriminate|].
  destruct (negb (forallb (fun p => Bool.eqb (p_held p) (mem tid_eqb (p_id p) (to_hold s))) (pool s))); [discriminate|].
  destruct (negb (forallb _ snap)); [discriminate|].
  destruct (existsb _ _); [discriminate|]. destruct (existsb _ _); [discriminate|].
  destruct (negb (forallb _ (pool s))) eqn:E; [discriminate|]. intros _ p i Hp Hi.
  apply negb_false_iff in E. rewrite forallb_forall in E. specialize (E p Hp). now rewrite Hi in E.
Qed.

(* ------------------------------------------------------------------ *)
(* C06: holds                                                           *)
(* ------------------------------------------------------------------ *)
Theorem hold_flag_changes_only_on_request c s t st h q r s' p inp :
  step c s (EState t st h q r) = Ok s' -> lookup s t = Some (p, inp) ->
  (h = true -> p_held p = false -> hold_expected s t = true) /\
  (h = false -> p_held p = true -> mem tid_eqb t (to_hold s) = false).
Proof.
  cbn [step]. intros H El. rewrite El in H.
  destruct (find_inst (c_insts c) t); [|discriminate].
  destruct (_ && _) in H; [discriminate|]. destruct (_ && _) in H; [discriminate|].
  destruct (_ && _) in H; [discriminate|]. destruct (_ && _) in H; [discriminate|].
  destruct (h && negb (p_held p) && negb (hold_expected s t)) eqn:E5; [discriminate|].
  destruct (negb h && p_held p && mem tid_eqb t (to_hold s)) eqn:E6; [discriminate|].
  split.
  - intros -> Hp. rewrite Hp in E5. cbn in E5. now apply negb_false_iff in E5.
  - intros -> Hp. rewrite Hp in E6. cbn in E6. exact E6.
Qed.

Theorem spawned_held_iff_requested c s t fl sat0 held s' :
  step c s (ESpawn t fl sat0 held) = Ok s' -> held = hold_expected s t.
Proof.
  cbn [step]. destruct (find_inst (c_insts c) t); [|discriminate].
  destruct (negb _); [discriminate|]. destruct (existsb _ _); [discriminate|].
  destruct (negb (subset_keys _ _)); [discriminate|].
  destruct (negb (Bool.eqb held (hold_expected s t))) eqn:E; [discriminate|].
  destruct (Z.ltb (fst t) (c_start c)); [discriminate|]. intros _.
  apply negb_false_iff in E. now apply eqb_prop in E.
Qed.

Theorem tick_end_hold_state c s snap hl hp s' :
  step c s (ETickEnd snap hl hp) = Ok s' ->
  same_tids hl (to_hold s) = true /\ hp = hold_pt s /\
  forall p, In p (pool s) -> p_held p = mem tid_eqb (p_id p) (to_hold s).
Proof.
  cbn [step]. destruct (negb (Nat.eqb _ _)); [discriminate|].
  destruct (negb (same_tids hl (to_hold s) && option_eqb Z.eqb hp (hold_pt s))) eqn:E1; [discriminate|].
  destruct (negb (forallb (fun p => Bool.eqb (p_held p) (mem tid_eqb (p_id p) (to_hold s))) (pool s))) eqn:E2;
    [discriminate|]. intros _.
  apply negb_false_iff in E1, E2. apply andb_true_iff in E1. destruct E1 as [E1 E1'].
  split; [exact E1|]. split.
  - destruct hp as [x|], (hold_pt s) as [y|]; cbn in E1'; try discriminate; auto.
    apply Z.eqb_eq in E1'. now subst.
  - rewrite forallb_forall in E2. intros p Hp. apply eqb_prop. auto.
Qed.

(* ------------------------------------------------------------------ *)
(* C19: stop + restart                                                  *)
(* ------------------------------------------------------------------ *)
Theorem restored_spec p :
  p_id (restored p) = p_id p /\ p_held (restored p) = p_held p /\ p_flows (restored p) = p_flows p /\
  p_sat (restored p) = p_sat p /\ p_outs (restored p) = p_outs p /\ p_manual (restored p) = p_manual p /\
  (p_status p = Preparing -> p_status (restored p) = Waiting /\ p_sn (restored p) = Nat.pred (p_sn p)) /\
  (p_status p <> Preparing -> p_status (restored p) = p_status p /\ p_sn (restored p) = p_sn p).
Proof.
  unfold restored. repeat split; cbn; destruct (p_status p); cbn; try reflexivity; try congruence.
Qed.

Theorem restart_keeps_persistent_state c s s' :
  step c s ERestart = Ok s' ->
  saved s' = map restored (pool s) /\ pool s' = [] /\
  to_hold s' = to_hold s /\ hold_pt s' = hold_pt s /\ stop_point s' = stop_point s /\
  stop_task s' = stop_task s /\ subs s' = subs s /\ done s' = done s /\ abs_done s' = abs_done s /\
  hist s' = hist s.
Proof. cbn [step]. intros [= <-]. cbn. repeat split. Qed.

Lemma restart_clears_crash_mode c s s' : step c s ERestart = Ok s' -> crash_mode s' = false.
Proof. cbn [step]. intros [= <-]. reflexivity. Qed.

Theorem restore_matches_expected c s v s' :
  crash_mode s = false ->
  step c s (ERestore v) = Ok s' ->
  exists p, find_task (saved s) (v_id v) = Some p /\ view_matches p v = true /\
            pool s' = pool s ++ [p] /\ saved s' = remove_task (saved s) (v_id v) /\ crash_mode s' = false.
Proof.
  intros Hc. cbn [step]. rewrite Hc. destruct (find_task (saved s) (v_id v)) as [p|]; [|discriminate].
  destruct (negb (view_matches p v)) eqn:E; [discriminate|].
  destruct (existsb _ (pool s)); [discriminate|]. intros [= <-].
  exists p. apply negb_false_iff in E. repeat split; auto.
Qed.

Lemma find_remove_task l t x p :
  find_task l t = Some x -> In p l -> p = x \/ In p (remove_task l t).
Proof.
  induction l as [|y r IH]; cbn; [discriminate|].
  destruct (tid_eqb (p_id y) t).
  - intros [= <-] [<-|Hp]; auto.
  - intros Hf [<-|Hp]; [right; now left|]. destruct (IH Hf Hp); [auto|right; now right].
Qed.

Lemma restores_account c vs : forall s s',
  crash_mode s = false ->
  exec c s (map ERestore vs) = Some s' ->
  (forall p, In p (pool s') -> In p (pool s) \/ In p (saved s)) /\
  (forall p, In p (saved s) -> In p (saved s') \/ In p (pool s')) /\
  (forall p, In p (pool s) -> In p (pool s')) /\ crash_mode s' = false.
Proof.
  induction vs as [|v r IH]; intros s s' Hc; cbn [map exec].
  - intros [= <-]. auto.
  - destruct (step c s (ERestore v)) as [s1|] eqn:E; [|discriminate]. intros H.
    destruct (restore_matches_expected _ _ _ _ Hc E) as [x [Hf [_ [Hp [Hs Hc1]]]]].
    destruct (IH _ _ Hc1 H) as [A [B [C D]]]. rewrite Hp, Hs in *. repeat split; [| | |exact D].
    + intros p Hp'. destruct (A p Hp') as [Hq|Hq].
      * apply in_app_or in Hq. destruct Hq as [Hq|[<-|[]]]; [now left|right].
        apply find_task_In in Hf. tauto.
      * right. eapply In_remove_task; eauto.
    + intros p Hp'. destruct (find_remove_task _ _ _ _ Hf Hp') as [->|Hq]; [|auto].
      right. apply C. apply in_or_app. right. now left.
    + intros p Hp'. apply C. apply in_or_app. now left.
Qed.

(* end to end: after a stop and restart the pool is exactly the old pool with every task
   restored as [restored] says (preparing -> waiting under the same submit number; status,
   held flag, flows, satisfied prerequisites, outputs and submit number otherwise unchanged) *)
Theorem restart_roundtrip c s vs s' :
  exec c s (ERestart :: map ERestore vs ++ [ERestartDone]) = Some s' ->
  forall q, In q (pool s') <-> In q (map restored (pool s)).
Proof.
  cbn [exec]. destruct (step c s ERestart) as [s0|] eqn:E0; [|discriminate]. intros H.
  apply exec_app in H. destruct H as [s1 [H1 H2]].
  cbn [exec] in H2. destruct (step c s1 ERestartDone) as [s2|] eqn:E2; [|discriminate]. injection H2 as <-.
  destruct (restart_keeps_persistent_state _ _ _ E0) as [Hs [Hp _]].
  destruct (restores_account _ _ _ _ (restart_clears_crash_mode _ _ _ E0) H1) as [A [B [_ D]]]. rewrite Hs, Hp in *.
  cbn [step] in E2. rewrite D in E2. destruct (saved s1) eqn:Es; [|discriminate]. injection E2 as <-.
  intros q. split.
  - intros Hq. destruct (A q Hq) as [[]|Hq']. exact Hq'.
  - intros Hq. destruct (B q Hq) as [Hq'|Hq']; [destruct Hq'|exact Hq'].
Qed.

(* ------------------------------------------------------------------ *)
(* C43: stop point, stop task, stop modes                               *)
(* ------------------------------------------------------------------ *)
Theorem no_submission_beyond_stop_point c s t sn s' :
  step c s (ESubmit t sn) = Ok s' ->
  exists p, find_task (pool s) t = Some p /\ (p_manual p = true \/ fst t <= stop_point s).
Proof.
  cbn [step]. destruct (find_task (pool s) t) as [p|]; [|discriminate].
  destruct (find_inst (c_insts c) t); [|discriminate].
  destruct (negb _); [discriminate|]. destruct (mem _ _ _); [discriminate|].
  destruct (_ && _); [discriminate|].
  destruct (Z.ltb (stop_point s) (fst t) && negb (p_manual p)) eqn:E; [discriminate|]. intros _.
  exists p. split; [reflexivity|]. apply andb_false_iff in E. destruct E as [E|E].
  - right. apply Z.ltb_ge in E. exact E.
  - left. now apply negb_false_iff in E.
Qed.

Theorem clean_stop_waits_for_active_jobs c s s' :
  step c s (EShutdownReq SClean) = Ok s' ->
  forall p, In p (pool s) -> p_status p <> Submitted /\ p_status p <> Running.
Proof.
  cbn [step]. destruct (negb _); [discriminate|].
  destruct (existsb (fun p => status_eqb (p_status p) Submitted || status_eqb (p_status p) Running) (pool s)) eqn:E;
    [discriminate|]. intros _ p Hp.
  assert (F : status_eqb (p_status p) Submitted || status_eqb (p_status p) Running = false).
  { destruct (status_eqb (p_status p) Submitted || status_eqb (p_status p) Running) eqn:Ef; [|reflexivity].
    assert (existsb (fun p => status_eqb (p_status p) Submitted || status_eqb (p_status p) Running) (pool s) = true)
      by (apply existsb_exists; eauto). congruence. }
  apply orb_false_iff in F. destruct F as [F1 F2].
  split; intros Heq; rewrite Heq in *; discriminate.
Qed.

Theorem stop_point_forgotten_when_reached c s s' :
  step c s EShutdownAuto = Ok s' -> stop_point s' = c_fcp c.
Proof.
  cbn [step]. repeat (destruct (existsb _ _); [discriminate|]). intros [= <-]. reflexivity.
Qed.

Theorem reported_stop_state_agrees c s sp st s' :
  step c s (EParams sp st) = Ok s' -> sp = stop_point s /\ option_eqb tid_eqb st (stop_task s) = true.
Proof.
  cbn [step]. destruct (negb (Z.eqb sp (stop_point s))) eqn:E1; [discriminate|].
  destruct (negb (option_eqb tid_eqb st (stop_task s))) eqn:E2; [discriminate|]. intros _.
  apply negb_false_iff in E1, E2. apply Z.eqb_eq in E1. auto.
Qed.

Theorem stop_task_done_only_after_success c s s' :
  step c s EStopTaskDone = Ok s' ->
  exists t, stop_task s = Some t /\ In (t, o_succeeded) (done s) /\ stop_task s' = None.
Proof.
  cbn [step]. destruct (stop_task s) as [t|]; [|discriminate].
  destruct (out_done s t o_succeeded) eqn:E; [|discriminate]. intros [= <-].
  exists t. unfold out_done in E. apply mem_key_In in E. auto.
Qed.

(* ------------------------------------------------------------------ *)
(* C46: warm start                                                      *)
(* ------------------------------------------------------------------ *)
Theorem nothing_spawned_before_start_point c s t fl sat0 held s' :
  step c s (ESpawn t fl sat0 held) = Ok s' -> c_start c <= fst t.
Proof.
  cbn [step]. destruct (find_inst (c_insts c) t); [|discriminate].
  destruct (negb _); [discriminate|]. destruct (existsb _ _); [discriminate|].
  destruct (negb (subset_keys _ _)); [discriminate|]. destruct (negb (Bool.eqb _ _)); [discriminate|].
  destruct (Z.ltb (fst t) (c_start c)) eqn:E; [discriminate|]. intros _. now apply Z.ltb_ge in E.
Qed.

(* ------------------------------------------------------------------ *)
(* C20: crash + restart                                                 *)
(* ------------------------------------------------------------------ *)
(* whatever the database gives back after a crash is accepted only if it is consistent *)
Theorem crash_restore_is_consistent c s v s' :
  crash_mode s = true -> step c s (ERestore v) = Ok s' ->
  exists i, find_inst (c_insts c) (v_id v) = Some i /\
    c_icp c <= fst (v_id v) <= c_fcp c /\
    (forall k, In k (v_sat v) -> In k (done s)) /\
    (forall o, In o (v_outs v) -> In (v_id v, o) (done s)) /\
    ~ In (v_id v) (map p_id (pool s)) /\
    (forall x, In x (subs s') -> In x (subs s) /\ (fst x = v_id v -> (snd x <= v_sn v)%nat)).
Proof.
  intros Hc. cbn [step]. rewrite Hc.
  destruct (find_inst (c_insts c) (v_id v)) as [i|]; [|discriminate].
  destruct (negb (Z.leb (c_icp c) (fst (v_id v)) && Z.leb (fst (v_id v)) (c_fcp c))) eqn:Eb; [discriminate|].
  destruct (existsb (fun q => tid_eqb (p_id q) (v_id v)) (pool s)) eqn:Ep; [discriminate|].
  destruct (negb (forallb (fun k => mem key_eqb k (done s)) (v_sat v))) eqn:Es; [discriminate|].
  destruct (negb (forallb (fun o => mem key_eqb (v_id v, o) (done s)) (v_outs v))) eqn:Eo; [discriminate|].
  match goal with |- (if ?b then _ else _) = _ -> _ => destruct b; [discriminate|] end.
  intros [= <-]. exists i. apply negb_false_iff in Eb, Es, Eo. apply andb_true_iff in Eb. destruct Eb as [E1 E2].
  apply Z.leb_le in E1, E2. rewrite forallb_forall in Es, Eo.
  split; [reflexivity|]. split; [lia|]. split; [intros k Hk; apply mem_key_In; auto|].
  split; [intros o Ho; apply mem_key_In; auto|]. split; [now apply existsb_id_false|].
  cbn. intros x Hx. apply filter_In in Hx. destruct Hx as [Hx Hf]. split; [exact Hx|].
  intros Heq. rewrite Heq, tid_eqb_refl in Hf. cbn in Hf. now apply Nat.leb_le in Hf.
Qed.

(* ------------------------------------------------------------------ *)
(* C29 / C30 / C28: commands                                            *)
(* ------------------------------------------------------------------ *)
Theorem forced_state_never_active c s t st h q r s' p inp :
  step c s (EStateForced t st h q r) = Ok s' -> lookup s t = Some (p, inp) ->
  st <> Submitted /\ st <> Running.
Proof.
  cbn [step]. intros H El. rewrite El in H.
  destruct (status_eqb st Submitted || status_eqb st Running) eqn:E; [discriminate|].
  apply orb_false_iff in E. destruct E as [E1 E2].
  split; intros ->; discriminate.
Qed.

Theorem force_sat_only_own_prerequisites c s t keys s' p inp i :
  step c s (EForceSat t keys) = Ok s' -> lookup s t = Some (p, inp) -> find_inst (c_insts c) t = Some i ->
  forall k, In k keys -> exists pre, In (k, pre) (inst_keys i).
Proof.
  cbn [step]. intros H El Hi. rewrite El, Hi in H.
  destruct (negb (forallb (fun k => existsb (fun kp => key_eqb (fst kp) k) (inst_keys i)) keys)) eqn:E; [discriminate|].
  apply negb_false_iff in E. rewrite forallb_forall in E. intros k Hk. specialize (E k Hk).
  apply existsb_exists in E. destruct E as [[k' pre] [Hin Heq]]. cbn in Heq. apply key_eqb_eq in Heq. subst k'.
  eauto.
Qed.

(* satisfaction by an output -- natural or set by command -- touches exactly the matching atoms,
   and only for outputs that were really completed *)
Theorem sat_exact c s t msgs new s' p inp i :
  step c s (ESat t msgs new) = Ok s' -> lookup s t = Some (p, inp) -> find_inst (c_insts c) t = Some i ->
  (forall k, In k msgs -> In k (done s)) /\
  (forall k, In k new <-> (exists pre, In (k, pre) (inst_keys i) /\ pre = false) /\ In k msgs /\ sat_of p k = false).
Proof.
  cbn [step]. intros H El Hi. rewrite El, Hi in H.
  destruct (negb (forallb (fun k => out_done s (fst k) (snd k)) msgs)) eqn:Em; [discriminate|].
  match type of H with (if negb (same_keys new ?e) then _ else _) = _ => set (expect := e) in * end.
  destruct (negb (same_keys new expect)) eqn:En; [discriminate|]. clear H.
  apply negb_false_iff in Em, En. rewrite forallb_forall in Em. split.
  - intros k Hk. specialize (Em k Hk). unfold out_done in Em. apply mem_key_In in Em. destruct k; exact Em.
  - unfold same_keys in En. apply andb_true_iff in En. destruct En as [E1 E2].
    assert (Hex : forall k, In k expect <->
              (exists pre, In (k, pre) (inst_keys i) /\ pre = false) /\ In k msgs /\ sat_of p k = false).
    { intros k. unfold expect. split.
      - intros Hk. apply (dedup_In key_eqb key_eqb_eq) in Hk. apply in_map_iff in Hk.
        destruct Hk as [[k' pre] [Heq Hf]]. cbn in Heq. subst k'. apply filter_In in Hf. destruct Hf as [Hin Hc].
        cbn in Hc. rewrite !andb_true_iff in Hc. destruct Hc as [[Hp Hm] Hs].
        apply negb_true_iff in Hp, Hs. apply mem_key_In in Hm. subst. split; [exists false; auto|auto].
      - intros [[pre [Hin ->]] [Hm Hs]].
        assert (Hd : In k (map fst (filter (fun kp => negb (snd kp) && mem key_eqb (fst kp) msgs
                                                      && negb (sat_of p (fst kp))) (inst_keys i)))).
        { apply in_map_iff. exists (k, false). split; [reflexivity|]. apply filter_In. split; [exact Hin|].
          cbn. rewrite Hs. apply mem_key_In in Hm. rewrite Hm. reflexivity. }
        clear -Hd. revert Hd. generalize (map fst (filter (fun kp => negb (snd kp) && mem key_eqb (fst kp) msgs
                                                      && negb (sat_of p (fst kp))) (inst_keys i))).
        intros l. induction l as [|y r IH]; cbn; [tauto|].
        destruct (mem key_eqb y r) eqn:Ey.
        + intros [<-|Hk]; [apply IH; now apply mem_key_In|auto].
        + intros [<-|Hk]; [now left|right; auto]. }
    intros k. rewrite <- Hex. split; intros Hk; eapply subset_keys_In; eauto.
Qed.

(* cylc remove erases exactly the history of the removed instance *)
Theorem remove_erases_history c s t s' :
  step c s (ECmdRemove t) = Ok s' ->
  (forall k, In k (done s') <-> In k (done s) /\ (fst k <> t \/ In k (abs_done s))) /\
  (forall x, In x (subs s') <-> In x (subs s) /\ fst x <> t) /\
  (forall h, In h (hist s') <-> In h (hist s) /\ h_id h <> t) /\
  to_hold s' = to_hold s /\ hold_pt s' = hold_pt s /\ abs_done s' = abs_done s /\
  map p_id (pool s') = map p_id (pool s).
Proof.
  cbn [step]. intros [= <-]. cbn.
  assert (Hne : forall a : tid, negb (tid_eqb a t) = true <-> a <> t).
  { intros a. rewrite negb_true_iff. split.
    - intros E Heq. subst. rewrite tid_eqb_refl in E. discriminate.
    - intros Hn. destruct (tid_eqb a t) eqn:E; [apply tid_eqb_eq in E; congruence|reflexivity]. }
  repeat split.
  - apply filter_In in H. tauto.
  - apply filter_In in H. destruct H as [_ H]. apply orb_true_iff in H.
    destruct H as [H|H]; [left; now apply Hne|right; now apply mem_key_In].
  - intros [H1 H2]. apply filter_In. split; [exact H1|]. apply orb_true_iff.
    destruct H2 as [H2|H2]; [left; now apply Hne|right; now apply mem_key_In].
  - apply filter_In in H. tauto.
  - apply filter_In in H. destruct H as [_ H]. now apply Hne.
  - intros [H1 H2]. apply filter_In. split; [exact H1|now apply Hne].
  - apply filter_In in H. tauto.
  - apply filter_In in H. destruct H as [_ H]. now apply Hne.
  - intros [H1 H2]. apply filter_In. split; [exact H1|now apply Hne].
  - rewrite map_map. apply map_ext. intros p. destruct (forallb _ (p_sat p)); reflexivity.
Qed.

(* ... and leaves every other field of every pooled task alone: only naturally satisfied
   prerequisites that came from the removed instance are unset *)
Theorem remove_frame c s t s' p :
  step c s (ECmdRemove t) = Ok s' -> In p (pool s) ->
  exists p', In p' (pool s') /\ p_id p' = p_id p /\ p_status p' = p_status p /\ p_outs p' = p_outs p /\
    p_flows p' = p_flows p /\ p_forced p' = p_forced p /\ p_held p' = p_held p /\ p_sn p' = p_sn p /\
    (forall k, In k (p_sat p') <-> In k (p_sat p) /\ fst k <> t).
Proof.
  cbn [step]. intros [= <-] Hp. cbn.
  set (keep := fun k : key => negb (tid_eqb (fst k) t)).
  set (fix_task := fun p : ptask =>
        if forallb keep (p_sat p) then p else set_manual (set_sat p (filter keep (p_sat p))) true).
  assert (Hne : forall k, keep k = true <-> fst k <> t).
  { intros k. unfold keep. rewrite negb_true_iff. split.
    - intros E Heq. rewrite Heq, tid_eqb_refl in E. discriminate.
    - intros Hn. destruct (tid_eqb (fst k) t) eqn:E; [apply tid_eqb_eq in E; congruence|reflexivity]. }
  exists (fix_task p). split; [apply in_map; exact Hp|].
  unfold fix_task. destruct (forallb keep (p_sat p)) eqn:E; cbn; repeat (split; [reflexivity|]); intros k.
  - rewrite forallb_forall in E. split; [intros Hk; split; [exact Hk|apply Hne; auto]|tauto].
  - rewrite filter_In, Hne. tauto.
Qed.

(* ------------------------------------------------------------------ *)
(* broadcasts (C19, C22 at scheduler level)                             *)
(* ------------------------------------------------------------------ *)
Lemma store_bcast s p inp : bcast (store s p inp) = bcast s.
Proof. unfold store; destruct inp; reflexivity. Qed.
Lemma add_hold_bcast s t : bcast (add_hold s t) = bcast s.
Proof. unfold add_hold. destruct (mem tid_eqb t (to_hold s)); reflexivity. Qed.
Lemma fold_add_hold_bcast ids : forall s, bcast (fold_left add_hold ids s) = bcast s.
Proof. induction ids as [|t r IH]; intros s; cbn; [reflexivity|]. rewrite IH. apply add_hold_bcast. Qed.

Ltac bcast_crush H :=
  repeat (match type of H with
          | (match ?x with _ => _ end) = Ok _ => destruct x eqn:?; try discriminate H
          | (if ?b then _ else _) = Ok _ => destruct b eqn:?; try discriminate H
          end);
  try (injection H as <-);
  repeat match goal with |- context [if ?b then _ else _] => destruct b end;
  cbn [bcast with_pool with_limbo with_hist with_subs with_limit with_relq with_done with_hold with_stop
       with_saved with_crash with_abs with_bcast];
  repeat (rewrite ?store_bcast, ?add_hold_bcast, ?fold_add_hold_bcast;
          cbn [bcast with_pool with_limbo with_hist with_subs with_limit with_relq with_done with_hold with_stop
               with_saved with_crash with_abs with_bcast]);
  try reflexivity.

(* only a broadcast event changes the broadcasts in force (or, after a crash, adopting what was committed) *)
Lemma step_bcast c s e s' :
  step c s e = Ok s' ->
  bcast s' = bcast s \/ (exists n, e = EBcast n) \/ (exists n, e = EBcastLoaded n /\ crash_mode s = true).
Proof.
  intros H. destruct e; cbn [step] in H;
    try (left; bcast_crush H; fail).
  - right. left. eauto.
  - destruct (crash_mode s) eqn:Ec; [right; right; eauto|]. left. bcast_crush H.
Qed.

Theorem bcast_db_agrees c s n s' : step c s (EBcastDb n) = Ok s' -> n = bcast s /\ s' = s.
Proof. cbn [step]. destruct (Nat.eqb n (bcast s)) eqn:E; [|discriminate]. intros [= <-]. split; [now apply Nat.eqb_eq|reflexivity]. Qed.

Theorem bcast_restored c s n s' :
  step c s (EBcastLoaded n) = Ok s' -> crash_mode s = false -> n = bcast s /\ s' = s.
Proof.
  cbn [step]. intros H Hc. rewrite Hc in H. destruct (Nat.eqb n (bcast s)) eqn:E; [|discriminate].
  injection H as <-. split; [now apply Nat.eqb_eq|reflexivity].
Qed.

(* over a stretch of history without broadcast events (in particular: a stop and restart), the broadcasts in
   force are unchanged ... *)
Theorem bcast_frame c tr : forall s s',
  exec c s tr = Some s' ->
  (forall n, ~ In (EBcast n) tr) -> (forall n, ~ In (EBcastLoaded n) tr) -> bcast s' = bcast s.
Proof.
  induction tr as [|e r IH]; intros s s' H H1 H2; cbn [exec] in H; [injection H as <-; reflexivity|].
  destruct (step c s e) as [s1|] eqn:E; [|discriminate].
  rewrite (IH s1 s' H); [|intros n Hn; apply (H1 n); now right|intros n Hn; apply (H2 n); now right].
  destruct (step_bcast _ _ _ _ E) as [Hb|[[n ->]|[n [-> _]]]]; [exact Hb| |].
  - exfalso. apply (H1 n). now left.
  - exfalso. apply (H2 n). now left.
Qed.

(* ... so what an accepted clean restart loaded is what was in force when the stretch began *)
Theorem restart_gives_broadcasts_back c tr s0 s1 n s2 :
  exec c s0 tr = Some s1 -> step c s1 (EBcastLoaded n) = Ok s2 -> crash_mode s1 = false ->
  (forall m, ~ In (EBcast m) tr) -> (forall m, ~ In (EBcastLoaded m) tr) ->
  n = bcast s0 /\ bcast s2 = bcast s0.
Proof.
  intros H Hs Hc H1 H2. destruct (bcast_restored _ _ _ _ Hs Hc) as [-> ->].
  split; apply (bcast_frame _ _ _ _ H H1 H2).
Qed.
