(* Proofs/GraphParseProofs.v — C14: assembling the layers.
   (1) logical layer: for a well-formed, eoc-safe graph g and any presentation
       ls of g as lines (chains cut anywhere, any order, any repetitions),
       parse_lines accepts the printed lines and the state means exactly g;
   (2) physical layer: blanks, comments, blank/comment lines and continuation
       breaks around the logical lines do not matter;
   (3) malformed classes are never accepted. *)
From Coq Require Import List Bool Arith String Lia.
From Cylc Require Import Base.Util Gen.FamTables Model.GraphBase Model.GraphExpr Model.FamTrig
  Model.GraphParse Model.GraphAst Proofs.GraphExprProofs Proofs.FamTrigProofs Proofs.GraphStoreProofs
  Proofs.GraphPairProofs Proofs.GraphLinesProofs Proofs.GraphSemProofs Proofs.GraphPhysProofs
  Proofs.GraphShapeProofs.
Import ListNotations.

(* ================= boolean equalities of assertions ================= *)
Lemma oassert_eqb_true (a b : oassert) : oassert_eqb a b = true <-> a = b.
Proof.
  destruct a as [[n o] x], b as [[n' o'] x']. unfold oassert_eqb.
  rewrite !andb_true_iff, Nat.eqb_eq, String.eqb_eq, Bool.eqb_true_iff.
  split; [intros [[-> ->] ->]; reflexivity|intros [= -> -> ->]; auto].
Qed.

Lemma tassert_eqb_true (a b : tassert) : tassert_eqb a b = true <-> a = b.
Proof.
  destruct a as [[n e] s], b as [[n' e'] s']. unfold tassert_eqb.
  rewrite !andb_true_iff, Nat.eqb_eq, toks_eqb_true, Bool.eqb_true_iff.
  split; [intros [[-> ->] ->]; reflexivity|intros [= -> -> ->]; auto].
Qed.

Lemma opt_oassert_eqb_true (a b : option oassert) : option_eqb oassert_eqb a b = true <-> a = b.
Proof.
  destruct a, b; cbn; try (split; [discriminate|intros [=]]); [|tauto].
  rewrite oassert_eqb_true. split; [now intros ->|now intros [= ->]].
Qed.

Lemma assoc_opt_in k (om : optmap) v : assoc optkey_eqb k om = Some v -> In (k, v) om.
Proof.
  induction om as [|[k' v'] r IH]; cbn; [discriminate|].
  destruct (optkey_eqb k k') eqn:E; [apply optkey_eqb_true in E; subst; intros [= ->]; now left|auto].
Qed.

Lemma assoc_opt_nodup k (om : optmap) v : NoDup (map fst om) -> In (k, v) om -> assoc optkey_eqb k om = Some v.
Proof.
  induction om as [|[k' v'] r IH]; cbn; intros Hnd Hin; [tauto|].
  inversion Hnd as [|? ? Hnotin Hnd']; subst.
  destruct Hin as [[= -> ->]|Hin]; [now rewrite (proj2 (optkey_eqb_true _ _) eq_refl)|].
  destruct (optkey_eqb k k') eqn:E; [|auto].
  apply optkey_eqb_true in E. subst. exfalso. apply Hnotin. apply in_map_iff. exists (k', v). auto.
Qed.

(* ================= from the store characterisation to [state_means] ================= *)
Lemma state_means_intro st g :
  tm_inv (ps_trig st) -> om_inv (ps_opt st) -> om_nodup (ps_opt st) ->
  (forall a, om_has (ps_opt st) a <-> In a (graph_asserts g)) ->
  (forall n e s, e <> [] -> (tm_has (ps_trig st) (n, e, s) <-> In (n, e, s) (graph_trigs g))) ->
  (forall n e s, In (n, e, s) (graph_trigs g) -> e <> []) ->
  (forall n, tm_task (ps_trig st) n <-> In n (graph_tasks g)) ->
  state_means st g = true.
Proof.
  intros [Hk Hl] Hom Hnd Ho Ht Hne Hk2. unfold state_means.
  repeat (apply andb_true_iff; split).
  - apply forallb_forall. intros oa Hoa. unfold state_asserts in Hoa. apply in_map_iff in Hoa.
    destruct Hoa as [[[n o] [[b d] f]] [<- Hin]].
    pose proof (assoc_opt_nodup _ _ _ Hnd Hin) as Ha. destruct (Hom _ _ Ha) as [b0 [= -> -> ->]].
    rewrite Bool.eqb_reflx. cbn. apply (mem_spec oassert_eqb oassert_eqb_true). apply Ho. exact Ha.
  - apply forallb_forall. intros [[n o] b] Ha. apply (mem_spec _ opt_oassert_eqb_true).
    apply Ho in Ha. unfold om_has in Ha. apply assoc_opt_in in Ha. unfold state_asserts.
    apply in_map_iff. exists ((n, o), (b, b, true)). split; [|exact Ha]. now rewrite Bool.eqb_reflx.
  - apply forallb_forall. intros [[n e] s] Ha. apply (mem_spec tassert_eqb tassert_eqb_true).
    unfold state_trigs in Ha. apply in_flat_map in Ha. destruct Ha as [[n' l] [Hin Ha]].
    apply in_map_iff in Ha. destruct Ha as [t [[= <- <- <-] Ht']]. cbn [fst snd] in *.
    unfold nonempty_trigs in Ht'. apply filter_In in Ht'. destruct Ht' as [Htl Hnn].
    assert (He : tg_expr t <> []) by (destruct (tg_expr t); [discriminate|discriminate]).
    apply (Ht n' (tg_expr t) (tg_suicide t) He). unfold tm_has. exists l, t.
    split; [now apply assoc_in_nodup|]. split; [|reflexivity].
    apply find_trig_in_nodup; [eapply Hl; eauto|exact Htl].
  - apply forallb_forall. intros [[n e] s] Ha. apply (mem_spec tassert_eqb tassert_eqb_true).
    pose proof (Hne n e s Ha) as He. apply (Ht n e s He) in Ha. destruct Ha as [l [t [Ha [Hf Hs]]]].
    apply find_trig_some in Hf. destruct Hf as [Htl He']. unfold state_trigs. apply in_flat_map.
    exists (n, l). split; [now apply assoc_some_in|]. cbn [fst snd]. apply in_map_iff. exists t.
    split; [now rewrite He', Hs|]. unfold nonempty_trigs. apply filter_In. split; [exact Htl|].
    rewrite He'. destruct e; [congruence|reflexivity].
  - apply forallb_forall. intros n Hn. apply (mem_spec Nat.eqb Nat.eqb_eq). apply Hk2.
    unfold tm_task. apply in_map_iff in Hn. destruct Hn as [[n' l] [<- Hin]]. cbn.
    rewrite (assoc_in_nodup _ _ _ Hk Hin). discriminate.
  - apply forallb_forall. intros n Hn. apply (mem_spec Nat.eqb Nat.eqb_eq). apply Hk2 in Hn.
    unfold tm_task in Hn. destruct (assoc Nat.eqb n (ps_trig st)) as [l|] eqn:E; [|congruence].
    apply assoc_some_in in E. apply in_map_iff. exists (n, l). auto.
Qed.

Lemma act_oasserts_flat {A} (f : A -> list action) l x :
  In x (act_oasserts (flat_map f l)) <-> exists c, In c l /\ In x (act_oasserts (f c)).
Proof.
  rewrite in_act_oasserts, in_flat_map. split; intros [c [Hc H]]; exists c; (split; [exact Hc|]);
    [now apply in_act_oasserts|now apply in_act_oasserts in H].
Qed.
Lemma act_tasserts_flat {A} (f : A -> list action) l n e s :
  In (n, e, s) (act_tasserts (flat_map f l)) <-> exists c, In c l /\ In (n, e, s) (act_tasserts (f c)).
Proof.
  rewrite in_act_tasserts. split.
  - intros [t [Ht R]]. apply in_flat_map in Ht. destruct Ht as [c [Hc Ht]]. exists c. split; [exact Hc|].
    apply in_act_tasserts. eauto.
  - intros [c [Hc H]]. apply in_act_tasserts in H. destruct H as [t [Ht R]]. exists t. split; [|exact R].
    apply in_flat_map. eauto.
Qed.
Lemma act_tasks_flat {A} (f : A -> list action) l n :
  In n (act_tasks (flat_map f l)) <-> exists c, In c l /\ In n (act_tasks (f c)).
Proof.
  rewrite in_act_tasks. split.
  - intros [t Ht]. apply in_flat_map in Ht. destruct Ht as [c [Hc Ht]]. exists c. split; [exact Hc|].
    apply in_act_tasks. eauto.
  - intros [c [Hc H]]. apply in_act_tasks in H. destruct H as [t Ht]. exists t. apply in_flat_map. eauto.
Qed.

Lemma pair_trigs_nonempty L G n e s : In (n, e, s) (pair_trigs L G) -> e <> [].
Proof.
  unfold pair_trigs. intros H. apply in_flat_map in H. destruct H as [p [_ H]].
  apply in_map_iff in H. destruct H as [r [[= _ <- _] _]].
  pose proof (stored_expr_nonempty p). destruct (stored_expr p); [discriminate|discriminate].
Qed.

Lemma graph_trigs_nonempty g n e s : In (n, e, s) (graph_trigs g) -> e <> [].
Proof.
  unfold graph_trigs. intros H. apply in_flat_map in H. destruct H as [c [_ H]].
  apply chain_trigs_mains in H. destruct H as [L [G [_ H]]]. eapply pair_trigs_nonempty; eauto.
Qed.

Lemma wf_graph_parts g : wf_graph g = true ->
  (forall c, In c g -> chain_ok c = true)
  /\ forallb oassert_guard (graph_asserts g) = true
  /\ (forall x y, In x (graph_asserts g) -> In y (graph_asserts g) -> ocompat x y = true)
  /\ (forall x y, In x (graph_trigs g) -> In y (graph_trigs g) -> tcompat x y = true).
Proof.
  unfold wf_graph. intros H. apply andb_true_iff in H. destruct H as [H H4].
  apply andb_true_iff in H. destruct H as [H H3]. apply andb_true_iff in H. destruct H as [H1 H2].
  split; [intros c Hc; rewrite forallb_forall in H1; auto|]. split; [exact H2|]. split.
  - intros x y Hx Hy. rewrite forallb_forall in H3. specialize (H3 x Hx). rewrite forallb_forall in H3. auto.
  - intros x y Hx Hy. rewrite forallb_forall in H4. specialize (H4 x Hx). rewrite forallb_forall in H4. auto.
Qed.

(* ================= (1) the logical layer ================= *)
Theorem parse_lines_presents g ls :
  wf_graph g = true -> eoc_safe g = true -> presents g ls ->
  exists st, parse_lines [] (map print_chain ls) = Ok st /\ state_means st g = true.
Proof.
  intros Hwf Hsafe Hpres.
  destruct (wf_graph_parts g Hwf) as [Hok [Hguard [Hoc Htc]]].
  pose proof (presents_lines_ok g ls Hok Hpres) as Hlok.
  set (E := lines_eoc (dd_lines ls)). set (A := line_acts E ls).
  assert (HE : forall x, mem toks_eqb x E = true <-> exists l, In l ls /\ In x (final_pieces l)).
  { intros x. rewrite (mem_spec toks_eqb toks_eqb_true). apply (eoc_in ls Hlok). }
  assert (SO : forall x, In x (act_oasserts A) <-> In x (graph_asserts g)).
  { intros x. unfold A, line_acts. rewrite act_oasserts_flat.
    rewrite <- (presents_asserts g ls E Hok Hsafe Hpres HE x).
    split; intros [l [Hl H]]; exists l; (split; [exact Hl|]); now apply chain_oasserts. }
  assert (ST : forall n e s, e <> [] -> (In (n, e, s) (act_tasserts A) <-> In (n, e, s) (graph_trigs g))).
  { intros n e s He. unfold A, line_acts. rewrite act_tasserts_flat.
    rewrite <- (presents_trigs g ls Hpres (n, e, s)).
    split; intros [l [Hl H]]; exists l; (split; [exact Hl|]);
      apply (chain_tasserts E l n e s (groups_ok_off0 _ (chain_ok_groups _ (Hlok l Hl))) He); exact H. }
  assert (SK : forall n, In n (act_tasks A) <-> In n (graph_tasks g)).
  { intros n. unfold A, line_acts. rewrite act_tasks_flat.
    rewrite <- (presents_tasks g ls Hok Hpres n).
    split; intros [l [Hl H]]; exists l; (split; [exact Hl|]);
      apply (chain_tasks_acts E l n (groups_ok_off0 _ (chain_ok_groups _ (Hlok l Hl)))); exact H. }
  destruct (parse_lines_ok ls Hlok) as [st [Ep [Htm [Hom [Hnd [Ho [Hh Ht]]]]]]].
  - fold E. fold A. apply forallb_forall. intros x Hx. rewrite forallb_forall in Hguard. apply Hguard. now apply SO.
  - fold E. fold A. intros x y Hx Hy. apply Hoc; now apply SO.
  - fold E. fold A. intros n e s s' He Hs Hs'. apply (ST n e s He) in Hs. apply (ST n e s' He) in Hs'.
    pose proof (Htc _ _ Hs Hs') as Hc. unfold tcompat in Hc. rewrite Nat.eqb_refl, toks_eqb_refl in Hc.
    cbn in Hc. now apply Bool.eqb_prop.
  - exists st. split; [exact Ep|]. fold E in Ho, Hh, Ht. fold A in Ho, Hh, Ht.
    apply state_means_intro; auto.
    + intros a. rewrite Ho. apply SO.
    + intros n e s He. rewrite (Hh n e s He). now apply ST.
    + apply graph_trigs_nonempty.
    + intros n. rewrite Ht. apply SK.
Qed.

(* ================= (1)+(2): the whole text ================= *)
Definition lays_chain (c : chain) (lay : layout) : Prop :=
  layout_ok (print_chain c) lay = true /\ lay <> [].

Lemma Forall2_map_l {A B C} (R : B -> C -> Prop) (f : A -> B) l1 l2 :
  Forall2 (fun a c => R (f a) c) l1 l2 -> Forall2 R (map f l1) l2.
Proof. induction 1; cbn; constructor; auto. Qed.

Lemma Forall2_impl_in {A B} (R R' : A -> B -> Prop) l1 l2 :
  (forall a b, In a l1 -> R a b -> R' a b) -> Forall2 R l1 l2 -> Forall2 R' l1 l2.
Proof.
  intros H HF. induction HF; constructor.
  - apply H; [now left|assumption].
  - apply IHHF. intros a b Ha. apply H. now right.
Qed.

Theorem parse_render g ls pre lys :
  wf_graph g = true -> eoc_safe g = true -> presents g ls ->
  Forall2 lays_chain ls lys ->
  exists st, parse [] (render_text pre lys) = Ok st /\ state_means st g = true.
Proof.
  intros Hwf Hsafe Hpres HF.
  destruct (wf_graph_parts g Hwf) as [Hok _].
  pose proof (presents_lines_ok g ls Hok Hpres) as Hlok.
  assert (HF2 : Forall2 lays (map print_chain ls) lys).
  { apply Forall2_map_l. eapply Forall2_impl_in; [|exact HF].
    intros c lay Hc [H1 H2]. split; [|split; auto].
    apply (print_chain_line_ok c (Hlok c Hc)). }
  pose proof (phys_layer pre lys _ HF2) as Hphys.
  unfold parse. destruct (phys_lines (render_text pre lys)) as [nb| |]; cbn [bind] in *; try discriminate.
  rewrite Hphys. cbn [bind].
  rewrite check_lines_ok.
  - cbn [bind]. now apply parse_lines_presents.
  - intros l Hl. apply in_map_iff in Hl. destruct Hl as [c [<- Hc]].
    destruct (print_chain_line_ok c (Hlok c Hc)) as [Hlo [Ha Ho]]. split; [exact Ha|]. split; [exact Ho|].
    unfold line_ok in Hlo. apply andb_true_iff in Hlo. destruct Hlo as [_ Hadj]. now apply negb_true_iff in Hadj.
Qed.

(* ================= the concrete renderers produce presentations ================= *)
Lemma cut_groups_cut_of : forall gs h acc flags,
  cut_of h (rev acc ++ gs) (cut_groups h acc gs flags).
Proof.
  induction gs as [|g r IH]; intros h acc flags; cbn [cut_groups].
  - rewrite app_nil_r. constructor.
  - destruct ((match flags with f :: _ => f | [] => false end) && negb (is_nil r)) eqn:Ec.
    + apply andb_true_iff in Ec. destruct Ec as [_ Hr]. apply negb_true_iff in Hr.
      cbn [rev]. apply cut_at; [destruct r; [discriminate|discriminate]|]. apply (IH (group_expr g) []).
    + specialize (IH h (g :: acc) (match flags with _ :: t => t | [] => [] end)).
      cbn [rev] in IH. rewrite <- app_assoc in IH. exact IH.
Qed.

Lemma cut_graph_parts : forall g cuts,
  exists parts, Forall2 (fun c p => cut_of (ch_head c) (ch_groups c) p) g parts
                /\ List.concat parts = cut_graph g cuts.
Proof.
  induction g as [|c r IH]; intros cuts; [exists []; split; [constructor|reflexivity]|].
  destruct (IH (match cuts with _ :: t => t | [] => [] end)) as [parts [HF E]].
  exists (cut_chain c (match cuts with f :: _ => f | [] => [] end) :: parts). split.
  - constructor; [|exact HF]. unfold cut_chain. apply (cut_groups_cut_of (ch_groups c) (ch_head c) []).
  - cbn [List.concat cut_graph]. now rewrite E.
Qed.

Lemma arrange_in sel (ls : graph) : covers sel (List.length ls) = true ->
  forall c, In c (arrange sel ls) <-> In c ls.
Proof.
  intros Hcov c. unfold arrange. rewrite in_flat_map. split.
  - intros [i [_ H]]. destruct (nth_error ls i) eqn:E; [|destruct H]. destruct H as [<-|[]].
    eapply nth_error_In; eauto.
  - intros H. apply In_nth_error in H. destruct H as [i Hi]. exists i. split; [|rewrite Hi; now left].
    unfold covers in Hcov. rewrite forallb_forall in Hcov.
    apply (mem_spec Nat.eqb Nat.eqb_eq). apply Hcov. apply in_seq. split; [lia|].
    cbn. apply nth_error_Some. congruence.
Qed.

Theorem renderers_present g cuts sel :
  covers sel (List.length (cut_graph g cuts)) = true ->
  presents g (arrange sel (cut_graph g cuts)).
Proof.
  intros Hcov. destruct (cut_graph_parts g cuts) as [parts [HF E]]. exists parts. split; [exact HF|].
  intros c. rewrite E. now apply arrange_in.
Qed.
