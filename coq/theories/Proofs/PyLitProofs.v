(* Proofs/PyLitProofs.v — lemmas about Model/PyLit.v (C37): printing a literal
   value with repr and reading the text back with the literal_eval model gives
   the value back. *)
From Coq Require Import Decimal DecimalZ DecimalPos.
From Coq Require Import List Bool Arith ZArith Lia.
From Cylc Require Import Base.Util Model.PyLit.
Import ListNotations.

(* ---------- text equality ---------- *)
Lemma text_eqb_refl t : text_eqb t t = true.
Proof. unfold text_eqb. apply list_eqb_spec; [|reflexivity]. intros x y. apply Z.eqb_eq. Qed.

(* ---------- integers ---------- *)
Lemma text_uint_uint_text u : text_uint (uint_text u) = Some u.
Proof. induction u; cbn [uint_text text_uint]; try rewrite IHu; reflexivity. Qed.

Lemma uint_text_digits u : forallb isdigit (uint_text u) = true.
Proof. induction u; cbn [uint_text forallb]; try rewrite IHu; reflexivity. Qed.

Lemma uint_text_nonnil u : u <> Nil -> uint_text u <> [].
Proof. destruct u; cbn; congruence. Qed.

Lemma uint_text_head u c r : uint_text u = c :: r -> isdigit c = true.
Proof. intros H. pose proof (uint_text_digits u) as D. rewrite H in D. cbn in D. now apply andb_true_iff in D. Qed.

Lemma isdigit_not_minus c : isdigit c = true -> Z.eqb c cMINUS = false.
Proof. unfold isdigit, cMINUS. intros H. apply andb_true_iff in H. destruct H as [H1 H2]. lia. Qed.

Lemma to_int_cases z :
  (exists u, Z.to_int z = Decimal.Pos u /\ u <> Nil) \/ (exists u, Z.to_int z = Decimal.Neg u /\ u <> Nil).
Proof.
  destruct z as [|p|p]; cbn.
  - left. exists zero. split; [reflexivity|discriminate].
  - left. eexists. split; [reflexivity|]. apply Unsigned.to_uint_nonnil.
  - right. eexists. split; [reflexivity|]. apply Unsigned.to_uint_nonnil.
Qed.

Lemma text_int_repr_int z : text_int (repr_int z) = Some z.
Proof.
  unfold repr_int. pose proof (DecimalZ.of_to z) as Hz.
  destruct (to_int_cases z) as [[u [E Hn]]|[u [E Hn]]]; rewrite E in *.
  - unfold text_int. destruct (uint_text u) as [|c r] eqn:Eu; [now apply uint_text_nonnil in Eu|].
    rewrite (isdigit_not_minus c (uint_text_head u c r Eu)). rewrite <- Eu, text_uint_uint_text. now rewrite Hz.
  - unfold text_int. cbn [Z.eqb]. rewrite Z.eqb_refl, text_uint_uint_text. now rewrite Hz.
Qed.

Lemma parse_int_repr_int z : parse_int (repr_int z) = Some z.
Proof. unfold parse_int. rewrite text_int_repr_int, text_eqb_refl. reflexivity. Qed.

Lemma isdigit_numch c : isdigit c = true -> numch c = true.
Proof. unfold numch. intros ->. reflexivity. Qed.

Lemma forallb_impl {A} (p q : A -> bool) l : (forall x, p x = true -> q x = true) -> forallb p l = true -> forallb q l = true.
Proof. intros H. induction l; cbn; auto. intros E. apply andb_true_iff in E. destruct E. rewrite H, IHl; auto. Qed.

(* shape of a printed integer *)
Lemma repr_int_shape z :
  exists c r, repr_int z = c :: r /\ (isdigit c = true \/ c = cMINUS) /\
              forallb numch (repr_int z) = true /\ int_like (repr_int z) = true.
Proof.
  unfold repr_int. destruct (to_int_cases z) as [[u [E Hn]]|[u [E Hn]]]; rewrite E.
  - destruct (uint_text u) as [|c r] eqn:Eu; [now apply uint_text_nonnil in Eu|].
    exists c, r. pose proof (uint_text_head u c r Eu) as Hc. split; [reflexivity|]. split; [auto|].
    rewrite <- Eu. split.
    + eapply forallb_impl; [apply isdigit_numch|apply uint_text_digits].
    + unfold int_like. rewrite Eu, (isdigit_not_minus c Hc), <- Eu. apply uint_text_digits.
  - exists cMINUS, (uint_text u). split; [reflexivity|]. split; [auto|]. split.
    + cbn [forallb]. rewrite (forallb_impl isdigit numch _ isdigit_numch (uint_text_digits u)). reflexivity.
    + unfold int_like. rewrite Z.eqb_refl. destruct (uint_text u) eqn:Eu; [now apply uint_text_nonnil in Eu|].
      rewrite <- Eu. apply uint_text_digits.
Qed.

(* ---------- hexadecimal ---------- *)
Fixpoint p16 (w : nat) : Z := match w with 0 => 1%Z | S w' => (16 * p16 w')%Z end.
Lemma p16_pos w : (0 < p16 w)%Z.
Proof. induction w; cbn [p16]; lia. Qed.

Lemma hex_length w : forall c, length (hex w c) = w.
Proof. induction w; intros c; cbn [hex]; [reflexivity|]. rewrite app_length, IHw. cbn. lia. Qed.

Lemma hexval_hexdigit d : (0 <= d < 16)%Z -> hexval (hexdigit d) = Some d.
Proof.
  intros H. unfold hexdigit, hexval. destruct (Z.ltb_spec d 10).
  - replace (Z.leb 48 (48 + d) && Z.leb (48 + d) 57) with true by (symmetry; apply andb_true_iff; lia).
    f_equal. lia.
  - replace (Z.leb 48 (87 + d) && Z.leb (87 + d) 57) with false by (symmetry; apply andb_false_iff; lia).
    replace (Z.leb 97 (87 + d) && Z.leb (87 + d) 102) with true by (symmetry; apply andb_true_iff; lia).
    f_equal. lia.
Qed.

Lemma unhex_app a : forall acc b,
  unhex acc (a ++ b) = match unhex acc a with Some x => unhex x b | None => None end.
Proof.
  induction a as [|c r IH]; intros acc b; [reflexivity|].
  rewrite <- app_comm_cons. cbn [unhex]. destruct (hexval c); [apply IH|reflexivity].
Qed.

Lemma unhex_hex w : forall acc c, (0 <= c)%Z ->
  unhex acc (hex w c) = Some (acc * p16 w + c mod p16 w)%Z.
Proof.
  induction w as [|w IH]; intros acc c Hc; cbn [hex p16 unhex].
  - rewrite Z.mod_1_r. f_equal. lia.
  - rewrite unhex_app, IH by (apply Z.div_pos; lia). cbn [unhex].
    rewrite hexval_hexdigit by (apply Z.mod_pos_bound; lia). f_equal.
    pose proof (p16_pos w).
    rewrite (Z.rem_mul_r c 16 (p16 w)) by lia. lia.
Qed.

Lemma unhex_hex_small w c : (0 <= c < p16 w)%Z -> unhex 0 (hex w c) = Some c.
Proof. intros H. rewrite unhex_hex by lia. rewrite Z.mod_small by lia. f_equal. Qed.

Lemma hexesc_hex w c tl : (0 <= c < p16 w)%Z -> (c <= 1114111)%Z ->
  hexesc w (hex w c ++ tl) = Some (c, tl).
Proof.
  intros H1 H2. unfold hexesc.
  assert (L : length (hex w c) = w) by apply hex_length.
  assert (F1 : firstn w (hex w c ++ tl) = hex w c).
  { rewrite firstn_app, L, Nat.sub_diag, firstn_O, app_nil_r. rewrite <- L at 1. apply firstn_all. }
  assert (F2 : skipn w (hex w c ++ tl) = tl).
  { rewrite skipn_app, L, Nat.sub_diag. cbn [skipn]. rewrite <- L at 1. now rewrite skipn_all. }
  rewrite F1, F2, L, Nat.eqb_refl, unhex_hex_small by exact H1.
  destruct (Z.leb_spec c 1114111); [reflexivity|lia].
Qed.

(* ---------- span / number tokens ---------- *)
Lemma span_app p a : forall rest,
  forallb p a = true -> match rest with [] => True | c :: _ => p c = false end ->
  span p (a ++ rest) = (a, rest).
Proof.
  induction a as [|c r IH]; intros rest Ha Hr.
  - destruct rest as [|c r]; [reflexivity|]. simpl. simpl in Hr. now rewrite Hr.
  - simpl in Ha. apply andb_true_iff in Ha. destruct Ha as [Hc Ha]. simpl. rewrite Hc, IH; auto.
Qed.

Lemma delim_ok_not_numch rest : delim_ok rest = true ->
  match rest with [] => True | c :: _ => numch c = false end.
Proof.
  destruct rest as [|c r]; [auto|]. unfold delim_ok, numch, isdigit, cCOMMA, cRB, cRP, cRC, cCOLON.
  intros H. repeat (apply orb_true_iff in H; destruct H as [H|H]); apply Z.eqb_eq in H; subst; reflexivity.
Qed.

(* ================= strings ================= *)
Definition char_ok (c : Z) : bool := Z.leb 0 c && Z.leb c 1114111.
Definition is_quote (q : Z) : Prop := q = cQ1 \/ q = cQ2.

Section Str.
  Variable printable : Z -> bool.

  Lemma unescape_cons e r : unescape (e :: r) =
        if Z.eqb e cBS then Some (cBS, r)
        else if Z.eqb e cQ1 then Some (cQ1, r)
        else if Z.eqb e cQ2 then Some (cQ2, r)
        else if Z.eqb e 110 then Some (10%Z, r)
        else if Z.eqb e 116 then Some (9%Z, r)
        else if Z.eqb e 114 then Some (13%Z, r)
        else if Z.eqb e 120 then hexesc 2 r
        else if Z.eqb e 117 then hexesc 4 r
        else if Z.eqb e 85 then hexesc 8 r
        else None.
  Proof. reflexivity. Qed.

  Lemma parse_chars_S f q c r : parse_chars (S f) q (c :: r) =
            if Z.eqb c q then Some ([], r)
            else if Z.eqb c cBS then
              match unescape r with
              | Some (x, r') =>
                  match parse_chars f q r' with Some (t, r2) => Some (x :: t, r2) | None => None end
              | None => None
              end
            else if Z.ltb c 32 then None
            else match parse_chars f q r with Some (t, r2) => Some (c :: t, r2) | None => None end.
  Proof. reflexivity. Qed.

  (* one character: the parser undoes repr_char *)
  Lemma parse_chars_step q c tl f : char_ok c = true -> is_quote q ->
    parse_chars (S f) q (repr_char printable q c ++ tl) =
    match parse_chars f q tl with Some (t, r2) => Some (c :: t, r2) | None => None end.
  Proof.
    intros Hc Hq. unfold char_ok in Hc. apply andb_true_iff in Hc. destruct Hc as [Hc0 Hc1].
    apply Z.leb_le in Hc0, Hc1.
    assert (Hq' : (q = 39 \/ q = 34)%Z) by exact Hq.
    assert (Hbq : Z.eqb cBS q = false) by (unfold cBS; lia).
    unfold repr_char.
    destruct (Z.eqb c q || Z.eqb c cBS) eqn:E1.
    { (* backslash + the character itself *)
      cbn [app]. rewrite parse_chars_S, Hbq, Z.eqb_refl, unescape_cons.
      apply orb_true_iff in E1. destruct E1 as [E|E]; apply Z.eqb_eq in E; subst c.
      - destruct Hq' as [-> | ->]; reflexivity.
      - reflexivity. }
    apply orb_false_iff in E1. destruct E1 as [Eq Eb].
    destruct (Z.eqb_spec c 9) as [->|N9].
    { cbn [app]. rewrite parse_chars_S, Hbq, Z.eqb_refl, unescape_cons. reflexivity. }
    destruct (Z.eqb_spec c 10) as [->|N10].
    { cbn [app]. rewrite parse_chars_S, Hbq, Z.eqb_refl, unescape_cons. reflexivity. }
    destruct (Z.eqb_spec c 13) as [->|N13].
    { cbn [app]. rewrite parse_chars_S, Hbq, Z.eqb_refl, unescape_cons. reflexivity. }
    assert (Hx : forall w tag, (tag = 120 \/ tag = 117 \/ tag = 85)%Z ->
                 unescape (tag :: hex w c ++ tl) = hexesc w (hex w c ++ tl) ->
                 (c < p16 w)%Z ->
                 parse_chars (S f) q ((cBS :: tag :: hex w c) ++ tl) =
                 match parse_chars f q tl with Some (t, r2) => Some (c :: t, r2) | None => None end).
    { intros w tag _ Hu Hw. rewrite <- !app_comm_cons. rewrite parse_chars_S, Hbq, Z.eqb_refl, Hu.
      rewrite hexesc_hex by lia. reflexivity. }
    destruct (Z.ltb c 32 || Z.eqb c 127) eqn:E5.
    { apply (Hx 2%nat 120%Z); [auto|reflexivity|].
      apply orb_true_iff in E5. cbn [p16]. destruct E5 as [E|E]; lia. }
    apply orb_false_iff in E5. destruct E5 as [E32 E127].
    assert (Hraw : parse_chars (S f) q ([c] ++ tl) =
                   match parse_chars f q tl with Some (t, r2) => Some (c :: t, r2) | None => None end).
    { cbn [app]. rewrite parse_chars_S, Eq, Eb, E32. reflexivity. }
    destruct (Z.ltb c 127); [exact Hraw|].
    destruct (printable c); [exact Hraw|].
    destruct (Z.leb_spec c 255).
    { apply (Hx 2%nat 120%Z); [auto|reflexivity|]. cbn [p16]. lia. }
    destruct (Z.leb_spec c 65535).
    { apply (Hx 4%nat 117%Z); [auto|reflexivity|]. cbn [p16]. lia. }
    apply (Hx 8%nat 85%Z); [auto|reflexivity|]. cbn [p16]. lia.
  Qed.

  Lemma repr_char_nonnil q c : repr_char printable q c <> [].
  Proof.
    unfold repr_char.
    repeat match goal with |- context [if ?b then _ else _] => destruct b end; discriminate.
  Qed.

  Lemma parse_chars_body q s : is_quote q -> forallb char_ok s = true ->
    forall rest fuel, length s < fuel ->
    parse_chars fuel q (flat_map (repr_char printable q) s ++ q :: rest) = Some (s, rest).
  Proof.
    intros Hq. induction s as [|c s IH]; intros Hs rest fuel Hf.
    - destruct fuel; [cbn in Hf; lia|]. cbn [flat_map app]. rewrite parse_chars_S, Z.eqb_refl. reflexivity.
    - cbn in Hs. apply andb_true_iff in Hs. destruct Hs as [Hc Hs].
      destruct fuel; [cbn in Hf; lia|]. cbn [flat_map]. rewrite <- app_assoc.
      rewrite parse_chars_step by assumption. rewrite IH; [reflexivity|assumption|cbn in Hf; lia].
  Qed.

  Lemma flat_map_repr_char_length q s : length s <= length (flat_map (repr_char printable q) s).
  Proof.
    induction s as [|c s IH]; cbn [flat_map length]; [lia|]. rewrite app_length.
    pose proof (repr_char_nonnil q c). destruct (repr_char printable q c); [congruence|]. cbn [length]. lia.
  Qed.

  Lemma quote_for_quote s : is_quote (quote_for s).
  Proof. unfold quote_for, is_quote. destruct (_ && _); auto. Qed.

  Lemma parse_string_repr_str F s rest : forallb char_ok s = true ->
    exists q t, repr_str printable s = q :: t /\ is_quote q /\
                parse_string F q (t ++ rest) = Some (VStr s, rest).
  Proof.
    intros Hs. unfold repr_str. set (q := quote_for s).
    exists q, (flat_map (repr_char printable q) s ++ [q]). split; [reflexivity|].
    split; [apply quote_for_quote|].
    unfold parse_string. rewrite <- app_assoc. cbn [app].
    rewrite parse_chars_body; [reflexivity|apply quote_for_quote|assumption|].
    rewrite app_length. pose proof (flat_map_repr_char_length q s). cbn [length]. lia.
  Qed.
End Str.

(* ================= values ================= *)
(* a number token that is not an integer literal: what a finite float prints as *)
Definition float_token (t : text) : bool :=
  match t with c :: _ => isdigit c || Z.eqb c cMINUS | [] => false end
  && forallb numch t && negb (int_like t).

(* what CPython prints for the other floats *)
Definition t_inf : text := [105; 110; 102]%Z.
Definition t_ninf : text := [45; 105; 110; 102]%Z.
Definition t_nan : text := [110; 97; 110]%Z.
Definition nonfinite_text (t : text) : bool :=
  text_eqb t t_inf || text_eqb t t_ninf || text_eqb t t_nan.

Lemma text_eqb_eq a b : text_eqb a b = true -> a = b.
Proof. unfold text_eqb. apply list_eqb_spec. intros x y. apply Z.eqb_eq. Qed.

Lemma nonfinite_cases t : nonfinite_text t = true -> t = t_inf \/ t = t_ninf \/ t = t_nan.
Proof.
  unfold nonfinite_text. intros H. apply orb_true_iff in H. destruct H as [H|H].
  - apply orb_true_iff in H. destruct H as [H|H]; apply text_eqb_eq in H; auto.
  - apply text_eqb_eq in H. auto.
Qed.

Lemma starts_with_app p : forall s, starts_with p (p ++ s) = Some s.
Proof. induction p as [|a p IH]; intros s; cbn; [reflexivity|]. now rewrite Z.eqb_refl. Qed.

Lemma join_cons sep x l : join sep (x :: l) = x ++ flat_map (fun y => sep ++ y) l.
Proof.
  revert x. induction l as [|y r IH]; intros x.
  - cbn. now rewrite app_nil_r.
  - change (join sep (x :: y :: r)) with (x ++ sep ++ join sep (y :: r)).
    rewrite IH. cbn [flat_map]. now rewrite <- !app_assoc.
Qed.

Lemma flat_map_map {A B C} (g : A -> B) (h : B -> list C) l :
  flat_map h (map g l) = flat_map (fun x => h (g x)) l.
Proof. induction l; cbn; [reflexivity|]. now rewrite IHl. Qed.

Section Main.
  Variable F : Type.
  Variable frepr : F -> text.
  Variable fparse : text -> option F.
  Variable printable : Z -> bool.
  Variable ffinite : F -> bool.
  (* CPython: a finite float prints as a number token that is not an integer
     literal and that float() maps back to the same float; the other floats
     print as inf, -inf or nan *)
  Hypothesis H_float : forall f,
    if ffinite f then float_token (frepr f) = true /\ fparse (frepr f) = Some f
    else nonfinite_text (frepr f) = true.

  Local Notation pv := (pyval F).
  Local Notation rp := (repr F frepr printable).
  Local Notation pval := (parse_val F fparse).
  Local Notation ptail := (parse_tail F fparse).
  Local Notation ppairs := (parse_pairs F fparse).

  (* ---------- induction principle for the nested type ---------- *)
  Section Ind.
    Variable P : pv -> Prop.
    Hypothesis HNone : P VNone.
    Hypothesis HBool : forall b, P (VBool b).
    Hypothesis HInt : forall z, P (VInt z).
    Hypothesis HFloat : forall f, P (VFloat f).
    Hypothesis HStr : forall s, P (VStr s).
    Hypothesis HList : forall l, Forall P l -> P (VList l).
    Hypothesis HTuple : forall l, Forall P l -> P (VTuple l).
    Hypothesis HSet : forall l, Forall P l -> P (VSet l).
    Hypothesis HDict : forall l, Forall (fun kv => P (fst kv) /\ P (snd kv)) l -> P (VDict l).
    Fixpoint pyval_ind' (v : pv) : P v :=
      match v with
      | VNone => HNone
      | VBool b => HBool b
      | VInt z => HInt z
      | VFloat f => HFloat f
      | VStr s => HStr s
      | VList l => HList l ((fix go (l : list pv) : Forall P l :=
                               match l with [] => Forall_nil _ | x :: r => Forall_cons x (pyval_ind' x) (go r) end) l)
      | VTuple l => HTuple l ((fix go (l : list pv) : Forall P l :=
                               match l with [] => Forall_nil _ | x :: r => Forall_cons x (pyval_ind' x) (go r) end) l)
      | VSet l => HSet l ((fix go (l : list pv) : Forall P l :=
                               match l with [] => Forall_nil _ | x :: r => Forall_cons x (pyval_ind' x) (go r) end) l)
      | VDict l => HDict l ((fix go (l : list (pv * pv)) : Forall (fun kv => P (fst kv) /\ P (snd kv)) l :=
                               match l with
                               | [] => Forall_nil _
                               | (k, x) :: r => Forall_cons (k, x) (conj (pyval_ind' k) (pyval_ind' x)) (go r)
                               end) l)
      end.
  End Ind.

  (* ---------- well-formed values: code points in range, floats finite ---------- *)
  Fixpoint vwf (v : pv) : bool :=
    match v with
    | VFloat f => ffinite f
    | VStr s => forallb char_ok s
    | VList l => forallb vwf l
    | VTuple l => forallb vwf l
    | VSet l => forallb vwf l
    | VDict l => forallb (fun kv => let '(k, x) := kv in vwf k && vwf x) l
    | _ => true
    end.

  (* ---------- unfolding equations ---------- *)
  Definition pair_text (kv : pv * pv) : text := let '(k, x) := kv in rp k ++ tKV ++ rp x.
  Definition tail_text (l : list pv) : text := flat_map (fun x => tSep ++ rp x) l.
  Definition pairs_text (l : list (pv * pv)) : text := flat_map (fun kv => tSep ++ pair_text kv) l.

  Lemma repr_VList l : rp (VList l) = cLB :: join tSep (map rp l) ++ [cRB].
  Proof. reflexivity. Qed.
  Lemma repr_VTuple l : rp (VTuple l) =
    match l with [x] => cLP :: rp x ++ [cCOMMA; cRP] | _ => cLP :: join tSep (map rp l) ++ [cRP] end.
  Proof. reflexivity. Qed.
  Lemma repr_VSet l : rp (VSet l) =
    match l with [] => tSet0 | _ => cLC :: join tSep (map rp l) ++ [cRC] end.
  Proof. reflexivity. Qed.
  Lemma repr_VDict l : rp (VDict l) = cLC :: join tSep (map pair_text l) ++ [cRC].
  Proof. reflexivity. Qed.

  Lemma join_reprs a r : join tSep (map rp (a :: r)) = rp a ++ tail_text r.
  Proof. cbn [map]. rewrite join_cons, flat_map_map. reflexivity. Qed.
  Lemma join_pairs a r : join tSep (map pair_text (a :: r)) = pair_text a ++ pairs_text r.
  Proof. cbn [map]. rewrite join_cons, flat_map_map. reflexivity. Qed.

  Lemma pval_atom f c t : Z.eqb c cLB = false -> Z.eqb c cLP = false -> Z.eqb c cLC = false ->
    pval (S f) (c :: t) = parse_atom F fparse (c :: t).
  Proof. intros H1 H2 H3. cbn [parse_val]. now rewrite H1, H2, H3. Qed.

  Lemma pval_list f r : pval (S f) (cLB :: r) =
    match expect cRB r with
    | Some r2 => Some (VList [], r2)
    | None =>
        match pval f r with
        | Some (v, s1) =>
            match ptail f s1 with
            | Some (vs, s2) =>
                match expect cRB s2 with Some s3 => Some (VList (v :: vs), s3) | None => None end
            | None => None
            end
        | None => None
        end
    end.
  Proof. reflexivity. Qed.

  Lemma pval_tuple f r : pval (S f) (cLP :: r) =
    match expect cRP r with
    | Some r2 => Some (VTuple [], r2)
    | None =>
        match pval f r with
        | Some (v, s1) =>
            match ptail f s1 with
            | Some ([], s2) =>
                match starts_with [cCOMMA; cRP] s2 with Some s3 => Some (VTuple [v], s3) | None => None end
            | Some (vs, s2) =>
                match expect cRP s2 with Some s3 => Some (VTuple (v :: vs), s3) | None => None end
            | None => None
            end
        | None => None
        end
    end.
  Proof. reflexivity. Qed.

  Lemma pval_brace f r : pval (S f) (cLC :: r) =
    match expect cRC r with
    | Some r2 => Some (VDict [], r2)
    | None =>
        match pval f r with
        | Some (k, s1) =>
            match starts_with tKV s1 with
            | Some s2 =>
                match pval f s2 with
                | Some (x, s3) =>
                    match ppairs f s3 with
                    | Some (kvs, s4) =>
                        match expect cRC s4 with Some s5 => Some (VDict ((k, x) :: kvs), s5) | None => None end
                    | None => None
                    end
                | None => None
                end
            | None =>
                match ptail f s1 with
                | Some (vs, s2) =>
                    match expect cRC s2 with Some s3 => Some (VSet (k :: vs), s3) | None => None end
                | None => None
                end
            end
        | None => None
        end
    end.
  Proof. reflexivity. Qed.

  Lemma ptail_S f s : ptail (S f) s =
    match starts_with tSep s with
    | Some s1 =>
        match pval f s1 with
        | Some (v, s2) => match ptail f s2 with Some (vs, s3) => Some (v :: vs, s3) | None => None end
        | None => None
        end
    | None => Some ([], s)
    end.
  Proof. reflexivity. Qed.

  Lemma ppairs_S f s : ppairs (S f) s =
    match starts_with tSep s with
    | Some s1 =>
        match pval f s1 with
        | Some (k, s2) =>
            match starts_with tKV s2 with
            | Some s3 =>
                match pval f s3 with
                | Some (x, s4) =>
                    match ppairs f s4 with Some (kvs, s5) => Some ((k, x) :: kvs, s5) | None => None end
                | None => None
                end
            | None => None
            end
        | None => None
        end
    | None => Some ([], s)
    end.
  Proof. reflexivity. Qed.

  (* ---------- atoms ---------- *)
  Lemma digit_or_minus_not_quote c : isdigit c = true \/ c = cMINUS ->
    Z.eqb c cQ1 || Z.eqb c cQ2 = false /\ isdigit c || Z.eqb c cMINUS = true /\
    Z.eqb c cLB = false /\ Z.eqb c cLP = false /\ Z.eqb c cLC = false /\
    Z.eqb c cRB = false /\ Z.eqb c cRP = false /\ Z.eqb c cRC = false.
  Proof.
    unfold isdigit, cMINUS, cQ1, cQ2, cLB, cLP, cLC, cRB, cRP, cRC. intros [H| ->].
    - apply andb_true_iff in H. destruct H as [H1 H2]. apply Z.leb_le in H1, H2.
      rewrite !orb_false_iff, orb_true_iff, andb_true_iff. repeat split; lia.
    - repeat split; reflexivity.
  Qed.

  Lemma parse_number_token tok rest v :
    forallb numch tok = true -> delim_ok rest = true ->
    (if int_like tok then match parse_int tok with Some z => Some (VInt z) | None => None end
     else match fparse tok with Some f => Some (VFloat f) | None => None end) = Some v ->
    parse_number F fparse (tok ++ rest) = Some (v, rest).
  Proof.
    intros Ht Hd Hv. unfold parse_number.
    rewrite (span_app numch tok rest Ht (delim_ok_not_numch rest Hd)), Hd.
    destruct (int_like tok).
    - destruct (parse_int tok); [|discriminate]. now injection Hv as <-.
    - destruct (fparse tok); [|discriminate]. now injection Hv as <-.
  Qed.

  (* what the head character of a printed value can be *)
  Definition head_ok (c : Z) : Prop :=
    Z.eqb c cRB = false /\ Z.eqb c cRP = false /\ Z.eqb c cRC = false.

  Definition P (v : pv) : Prop :=
    vwf v = true ->
    (exists c t, rp v = c :: t /\ head_ok c) /\
    forall rest fuel, delim_ok rest = true -> length (rp v) < fuel ->
      pval fuel (rp v ++ rest) = Some (v, rest).

  Lemma P_number v tok :
    rp v = tok ->
    (exists c r, tok = c :: r /\ (isdigit c = true \/ c = cMINUS)) ->
    forallb numch tok = true ->
    (if int_like tok then match parse_int tok with Some z => Some (VInt z) | None => None end
     else match fparse tok with Some f => Some (VFloat f) | None => None end) = Some v ->
    (exists c t, rp v = c :: t /\ head_ok c) /\
    forall rest fuel, delim_ok rest = true -> length (rp v) < fuel ->
      pval fuel (rp v ++ rest) = Some (v, rest).
  Proof.
    intros Hr (c & r & Et & Hc) Hn Hv. rewrite Hr.
    destruct (digit_or_minus_not_quote c Hc) as (Q & D & B1 & B2 & B3 & C1 & C2 & C3).
    split.
    - exists c, r. split; [exact Et|]. repeat split; assumption.
    - intros rest fuel Hd Hf. destruct fuel; [lia|].
      pose proof (parse_number_token tok rest v Hn Hd Hv) as Hp.
      rewrite Et in *. rewrite <- app_comm_cons in *. rewrite pval_atom by assumption.
      unfold parse_atom. rewrite Q, D. exact Hp.
  Qed.

  Lemma P_int z : P (VInt z).
  Proof.
    intros _. destruct (repr_int_shape z) as (c & r & E & Hc & Hn & Hi).
    apply (P_number (VInt z) (repr_int z)); auto.
    - exists c, r. auto.
    - rewrite Hi, parse_int_repr_int. reflexivity.
  Qed.

  Lemma P_float f : P (VFloat f).
  Proof.
    intros Hw. cbn [vwf] in Hw. pose proof (H_float f) as Hfl. rewrite Hw in Hfl. destruct Hfl as [Ht Hp].
    unfold float_token in Ht. apply andb_true_iff in Ht. destruct Ht as [Ht Hi].
    apply andb_true_iff in Ht. destruct Ht as [Hh Hn]. apply negb_true_iff in Hi.
    apply (P_number (VFloat f) (frepr f)); auto.
    - destruct (frepr f) as [|c r]; [discriminate|]. exists c, r. split; [reflexivity|].
      apply orb_true_iff in Hh. destruct Hh as [H|H]; [auto|right; now apply Z.eqb_eq].
    - rewrite Hi, Hp. reflexivity.
  Qed.

  Lemma P_keyword v kw c t :
    rp v = kw -> kw = c :: t ->
    (forall rest, delim_ok rest = true -> parse_atom F fparse (kw ++ rest) = Some (v, rest)) ->
    Z.eqb c cLB = false -> Z.eqb c cLP = false -> Z.eqb c cLC = false -> head_ok c ->
    (exists c t, rp v = c :: t /\ head_ok c) /\
    forall rest fuel, delim_ok rest = true -> length (rp v) < fuel ->
      pval fuel (rp v ++ rest) = Some (v, rest).
  Proof.
    intros Hr Ek Hp B1 B2 B3 Hh. rewrite Hr. split.
    - exists c, t. auto.
    - intros rest fuel Hd Hf. destruct fuel; [lia|]. specialize (Hp rest Hd).
      rewrite Ek in *. rewrite <- app_comm_cons in *. rewrite pval_atom by assumption. exact Hp.
  Qed.

  Lemma keyword_app kw (v : pv) rest : delim_ok rest = true -> keyword F kw v (kw ++ rest) = Some (v, rest).
  Proof. intros Hd. unfold keyword. now rewrite starts_with_app, Hd. Qed.

  Lemma P_none : P VNone.
  Proof.
    intros _. apply (P_keyword VNone tNone 78%Z [111; 110; 101]%Z); try reflexivity; [|repeat split].
    intros rest Hd. pose proof (keyword_app tNone VNone rest Hd) as K.
    unfold parse_atom. cbn [tNone app] in *. cbn [Z.eqb orb isdigit andb Z.leb Z.compare Pos.compare Pos.compare_cont].
    now rewrite K.
  Qed.

  Lemma P_bool b : P (VBool b).
  Proof.
    intros _. destruct b.
    - apply (P_keyword (VBool true) tTrue 84%Z [114; 117; 101]%Z); try reflexivity; [|repeat split].
      intros rest Hd. pose proof (keyword_app tTrue (VBool true) rest Hd) as K.
      unfold parse_atom. cbn [tTrue app] in *. cbn [Z.eqb orb isdigit andb Z.leb Z.compare Pos.compare Pos.compare_cont].
      unfold keyword at 1. cbn [tNone starts_with Z.eqb]. now rewrite K.
    - apply (P_keyword (VBool false) tFalse 70%Z [97; 108; 115; 101]%Z); try reflexivity; [|repeat split].
      intros rest Hd. pose proof (keyword_app tFalse (VBool false) rest Hd) as K.
      unfold parse_atom. cbn [tFalse app] in *. cbn [Z.eqb orb isdigit andb Z.leb Z.compare Pos.compare Pos.compare_cont].
      unfold keyword at 1. cbn [tNone starts_with Z.eqb].
      unfold keyword at 1. cbn [tTrue starts_with Z.eqb]. now rewrite K.
  Qed.

  Lemma P_set0 :
    (exists c t, rp (VSet []) = c :: t /\ head_ok c) /\
    forall rest fuel, delim_ok rest = true -> length (rp (VSet [])) < fuel ->
      pval fuel (rp (VSet []) ++ rest) = Some (VSet [], rest).
  Proof.
    apply (P_keyword (VSet []) tSet0 115%Z [101; 116; 40; 41]%Z); try reflexivity; [|repeat split].
    intros rest Hd. pose proof (keyword_app tSet0 (VSet []) rest Hd) as K.
    unfold parse_atom. cbn [tSet0 app] in *. cbn [Z.eqb orb isdigit andb Z.leb Z.compare Pos.compare Pos.compare_cont].
    unfold keyword at 1. cbn [tNone starts_with Z.eqb].
    unfold keyword at 1. cbn [tTrue starts_with Z.eqb].
    unfold keyword at 1. cbn [tFalse starts_with Z.eqb]. exact K.
  Qed.

  Lemma P_str s : P (VStr s).
  Proof.
    intros Hw. cbn [vwf] in Hw.
    assert (Hq : forall q, is_quote q ->
              Z.eqb q cQ1 || Z.eqb q cQ2 = true /\ Z.eqb q cLB = false /\ Z.eqb q cLP = false /\
              Z.eqb q cLC = false /\ head_ok q).
    { intros q [-> | ->]; repeat split; reflexivity. }
    split.
    - destruct (parse_string_repr_str printable F s [] Hw) as (q & t & E & Q & _).
      exists q, t. split; [exact E|]. apply Hq, Q.
    - intros rest fuel Hd Hf. destruct fuel; [lia|].
      destruct (parse_string_repr_str printable F s rest Hw) as (q & t & E & Q & Hp).
      change (rp (VStr s)) with (repr_str printable s). rewrite E, <- app_comm_cons.
      destruct (Hq q Q) as (Q1 & B1 & B2 & B3 & _).
      rewrite pval_atom by assumption. unfold parse_atom. rewrite Q1. exact Hp.
  Qed.

  (* ---------- containers ---------- *)
  Definition P' (v : pv) : Prop :=
    vwf v = true -> forall rest fuel, delim_ok rest = true -> length (rp v) < fuel ->
      pval fuel (rp v ++ rest) = Some (v, rest).

  Lemma delim_sep s : delim_ok (tSep ++ s) = true.
  Proof. reflexivity. Qed.

  Lemma delim_tail l rest : delim_ok rest = true -> delim_ok (tail_text l ++ rest) = true.
  Proof. destruct l; [auto|]. intros _. reflexivity. Qed.

  Lemma delim_pairs l rest : delim_ok rest = true -> delim_ok (pairs_text l ++ rest) = true.
  Proof. destruct l; [auto|]. intros _. reflexivity. Qed.

  Lemma tail_roundtrip l : Forall P' l -> forallb vwf l = true ->
    forall rest fuel, starts_with tSep rest = None -> delim_ok rest = true ->
      length (tail_text l) < fuel ->
      ptail fuel (tail_text l ++ rest) = Some (l, rest).
  Proof.
    induction 1 as [|x r Hx Hr IH]; intros Hw rest fuel Hs Hd Hf.
    - destruct fuel; [cbn in Hf; lia|]. cbn [tail_text flat_map app]. rewrite ptail_S, Hs. reflexivity.
    - cbn [forallb] in Hw. apply andb_true_iff in Hw. destruct Hw as [Hwx Hwr].
      destruct fuel; [cbn in Hf; lia|].
      unfold tail_text in *. cbn [flat_map] in *. rewrite !app_length in Hf. cbn [tSep length] in Hf.
      rewrite <- !app_assoc. rewrite ptail_S, starts_with_app.
      rewrite (Hx Hwx) by (try apply delim_tail; auto; lia).
      rewrite IH by (auto; lia). reflexivity.
  Qed.

  Lemma pairs_roundtrip l : Forall (fun kv => P' (fst kv) /\ P' (snd kv)) l ->
    forallb (fun kv => let '(k, x) := kv in vwf k && vwf x) l = true ->
    forall rest fuel, starts_with tSep rest = None -> delim_ok rest = true ->
      length (pairs_text l) < fuel ->
      ppairs fuel (pairs_text l ++ rest) = Some (l, rest).
  Proof.
    induction 1 as [|[k x] r [Hk Hx] Hr IH]; intros Hw rest fuel Hs Hd Hf.
    - destruct fuel; [cbn in Hf; lia|]. cbn [pairs_text flat_map app]. rewrite ppairs_S, Hs. reflexivity.
    - cbn [forallb] in Hw. apply andb_true_iff in Hw. destruct Hw as [Hwk Hwr].
      apply andb_true_iff in Hwk. destruct Hwk as [Hwk Hwx]. cbn [fst snd] in *.
      destruct fuel; [cbn in Hf; lia|].
      unfold pairs_text in *. cbn [flat_map pair_text] in *. rewrite !app_length in Hf. cbn [tSep tKV length] in Hf.
      rewrite <- !app_assoc. rewrite ppairs_S, starts_with_app.
      rewrite (Hk Hwk) by (try reflexivity; lia).
      rewrite starts_with_app.
      rewrite (Hx Hwx) by (try apply delim_pairs; auto; lia).
      rewrite IH by (auto; lia). reflexivity.
  Qed.

  Lemma P_P' v : P v -> P' v.
  Proof. intros H Hw. apply (H Hw). Qed.

  Lemma Forall_P_P' l : Forall P l -> Forall P' l.
  Proof. apply Forall_impl. exact P_P'. Qed.

  Lemma expect_refl c s : expect c (c :: s) = Some s.
  Proof. unfold expect. now rewrite Z.eqb_refl. Qed.

  Lemma expect_head_none close v Y : P v -> vwf v = true ->
    (close = cRB \/ close = cRP \/ close = cRC) -> expect close (rp v ++ Y) = None.
  Proof.
    intros HP Hw Hc. destruct (HP Hw) as [(c & t & E & H1 & H2 & H3) _]. rewrite E. cbn [app expect].
    destruct Hc as [-> | [-> | ->]]; [rewrite H1|rewrite H2|rewrite H3]; reflexivity.
  Qed.

  (* first element, then the `, x` tail, up to a closing bracket *)
  Lemma seq_roundtrip a r close rest f :
    P a -> Forall P r -> vwf a = true -> forallb vwf r = true ->
    (close = cRB \/ close = cRP \/ close = cRC) ->
    length (rp a) < f -> length (tail_text r) < f ->
    pval f (rp a ++ tail_text r ++ close :: rest) = Some (a, tail_text r ++ close :: rest) /\
    ptail f (tail_text r ++ close :: rest) = Some (r, close :: rest).
  Proof.
    intros Ha Hr Hwa Hwr Hc L1 L2.
    assert (Hd : delim_ok (close :: rest) = true) by (destruct Hc as [-> | [-> | ->]]; reflexivity).
    assert (Hs : starts_with tSep (close :: rest) = None) by (destruct Hc as [-> | [-> | ->]]; reflexivity).
    split.
    - apply (P_P' a Ha Hwa); [apply delim_tail; exact Hd|exact L1].
    - apply tail_roundtrip; auto using Forall_P_P'.
  Qed.

  Lemma P_list l : Forall P l -> P (VList l).
  Proof.
    intros HF Hw. cbn [vwf] in Hw. split.
    - exists cLB. eexists. split; [apply repr_VList|]. repeat split.
    - intros rest fuel Hd Hf. destruct fuel; [lia|]. rewrite repr_VList in *.
      destruct l as [|a r].
      + cbn [map join app]. rewrite pval_list, expect_refl. reflexivity.
      + rewrite join_reprs in *. cbn [length] in Hf. rewrite !app_length in Hf. cbn [length] in Hf.
        cbn [forallb] in Hw. apply andb_true_iff in Hw. destruct Hw as [Hwa Hwr].
        inversion HF as [|? ? Ha Hr]; subst.
        rewrite <- app_comm_cons, <- !app_assoc. cbn [app].
        rewrite pval_list, (expect_head_none cRB a _ Ha Hwa) by auto.
        destruct (seq_roundtrip a r cRB rest fuel Ha Hr Hwa Hwr) as [E1 E2]; auto; try lia.
        rewrite E1, E2, expect_refl. reflexivity.
  Qed.

  Lemma P_set l : Forall P l -> P (VSet l).
  Proof.
    intros HF Hw. cbn [vwf] in Hw. destruct l as [|a r]; [exact P_set0|]. split.
    - exists cLC. eexists. split; [reflexivity|]. repeat split.
    - intros rest fuel Hd Hf. destruct fuel; [lia|]. rewrite repr_VSet in *.
      rewrite join_reprs in *. cbn [length] in Hf. rewrite !app_length in Hf. cbn [length] in Hf.
      cbn [forallb] in Hw. apply andb_true_iff in Hw. destruct Hw as [Hwa Hwr].
      inversion HF as [|? ? Ha Hr]; subst.
      rewrite <- app_comm_cons, <- !app_assoc. cbn [app].
      rewrite pval_brace, (expect_head_none cRC a _ Ha Hwa) by auto.
      destruct (seq_roundtrip a r cRC rest fuel Ha Hr Hwa Hwr) as [E1 E2]; auto; try lia.
      rewrite E1.
      assert (Hk : starts_with tKV (tail_text r ++ cRC :: rest) = None) by (destruct r; reflexivity).
      rewrite Hk, E2, expect_refl. reflexivity.
  Qed.

  Lemma P_tuple l : Forall P l -> P (VTuple l).
  Proof.
    intros HF Hw. cbn [vwf] in Hw. split.
    - exists cLP. rewrite repr_VTuple. destruct l as [|a [|b r]]; eexists; (split; [reflexivity|repeat split]).
    - intros rest fuel Hd Hf. destruct fuel; [lia|]. rewrite repr_VTuple in *.
      destruct l as [|a r].
      + cbn [map join app]. rewrite pval_tuple, expect_refl. reflexivity.
      + cbn [forallb] in Hw. apply andb_true_iff in Hw. destruct Hw as [Hwa Hwr].
        inversion HF as [|? ? Ha Hr]; subst.
        destruct r as [|b r].
        * cbn [length] in Hf. rewrite !app_length in Hf. cbn [length] in Hf.
          rewrite <- app_comm_cons, <- !app_assoc. cbn [app].
          rewrite pval_tuple, (expect_head_none cRP a _ Ha Hwa) by auto.
          rewrite (P_P' a Ha Hwa) by (try reflexivity; lia).
          destruct fuel; [lia|]. rewrite ptail_S. reflexivity.
        * rewrite join_reprs in *. cbn [length] in Hf. rewrite !app_length in Hf. cbn [length] in Hf.
          rewrite <- app_comm_cons, <- !app_assoc. cbn [app].
          rewrite pval_tuple, (expect_head_none cRP a _ Ha Hwa) by auto.
          destruct (seq_roundtrip a (b :: r) cRP rest fuel Ha Hr Hwa Hwr) as [E1 E2]; auto; try lia.
          rewrite E1, E2, expect_refl. reflexivity.
  Qed.

  Lemma P_dict l : Forall (fun kv => P (fst kv) /\ P (snd kv)) l -> P (VDict l).
  Proof.
    intros HF Hw. cbn [vwf] in Hw. split.
    - exists cLC. eexists. split; [apply repr_VDict|]. repeat split.
    - intros rest fuel Hd Hf. destruct fuel; [lia|]. rewrite repr_VDict in *.
      destruct l as [|[k x] r].
      + cbn [map join app]. rewrite pval_brace, expect_refl. reflexivity.
      + rewrite join_pairs in *. cbn [pair_text] in *. cbn [length] in Hf. rewrite !app_length in Hf.
        cbn [length tKV] in Hf.
        cbn [forallb] in Hw. apply andb_true_iff in Hw. destruct Hw as [Hwk Hwr].
        apply andb_true_iff in Hwk. destruct Hwk as [Hwk Hwx].
        inversion HF as [|? ? [Hk Hx] Hr]; subst. cbn [fst snd] in *.
        rewrite <- app_comm_cons, <- !app_assoc. cbn [app].
        rewrite pval_brace, (expect_head_none cRC k _ Hk Hwk) by auto.
        rewrite (P_P' k Hk Hwk) by (try reflexivity; lia).
        rewrite starts_with_app.
        assert (Hd2 : delim_ok (cRC :: rest) = true) by reflexivity.
        rewrite (P_P' x Hx Hwx) by (try (apply delim_pairs; exact Hd2); lia).
        rewrite pairs_roundtrip; [rewrite expect_refl; reflexivity| |assumption|reflexivity|reflexivity|lia].
        eapply Forall_impl; [|exact Hr]. intros [k' x'] [A B]. split; apply P_P'; assumption.
  Qed.

  Theorem P_all v : P v.
  Proof.
    induction v using pyval_ind'.
    - exact P_none. - apply P_bool. - apply P_int. - apply P_float. - apply P_str.
    - now apply P_list. - now apply P_tuple. - now apply P_set. - now apply P_dict.
  Qed.

  (* ---------- the round trip ---------- *)
  Theorem parse_repr v : vwf v = true -> parse F fparse (rp v) = Some v.
  Proof.
    intros Hw. destruct (P_all v Hw) as [_ H]. unfold parse.
    specialize (H [] (S (length (rp v))) eq_refl (Nat.lt_succ_diag_r _)).
    rewrite app_nil_r in H. rewrite H. reflexivity.
  Qed.

  (* ================= accepted values ================= *)
  Local Notation ev := (eval_var F frepr fparse printable).

  (* strings over code points in range; floats unrestricted *)
  Fixpoint swf (v : pv) : bool :=
    match v with
    | VStr s => forallb char_ok s
    | VList l => forallb swf l
    | VTuple l => forallb swf l
    | VSet l => forallb swf l
    | VDict l => forallb (fun kv => let '(k, x) := kv in swf k && swf x) l
    | _ => true
    end.

  Definition nonbracket (c : Z) : Prop :=
    Z.eqb c cLB = false /\ Z.eqb c cLP = false /\ Z.eqb c cLC = false.

  Lemma pval_0 s : pval 0 s = None.
  Proof. reflexivity. Qed.

  (* inf, -inf, nan are not literals *)
  Lemma nonfinite_unreadable t rest fuel : nonfinite_text t = true -> pval fuel (t ++ rest) = None.
  Proof.
    intros H. destruct fuel; [reflexivity|].
    destruct (nonfinite_cases t H) as [-> | [-> | ->]]; reflexivity.
  Qed.

  Lemma nonfinite_head t : nonfinite_text t = true -> exists c r, t = c :: r /\ head_ok c.
  Proof.
    intros H. destruct (nonfinite_cases t H) as [-> | [-> | ->]]; eexists; eexists; (split; [reflexivity|repeat split]).
  Qed.

  (* an atom that the parser reads back does so with any non-zero fuel *)
  Lemma atom_any_fuel v c t : vwf v = true -> rp v = c :: t -> nonbracket c ->
    forall rest f, delim_ok rest = true -> pval (S f) (rp v ++ rest) = Some (v, rest).
  Proof.
    intros Hw E (B1 & B2 & B3) rest f Hd. destruct (P_all v Hw) as [_ H].
    specialize (H rest (S (length (rp v))) Hd (Nat.lt_succ_diag_r _)).
    rewrite E in *. rewrite <- app_comm_cons in *. rewrite pval_atom in * by assumption. exact H.
  Qed.

  Definition Q (v : pv) : Prop :=
    swf v = true -> forall rest fuel v' rest', delim_ok rest = true ->
      pval fuel (rp v ++ rest) = Some (v', rest') -> v' = v /\ rest' = rest.

  Lemma Q_atom v c t : vwf v = true -> rp v = c :: t -> nonbracket c -> Q v.
  Proof.
    intros Hw E Hb _ rest fuel v' rest' Hd H. destruct fuel; [discriminate|].
    rewrite (atom_any_fuel v c t Hw E Hb rest fuel Hd) in H. injection H as <- <-. auto.
  Qed.

  Lemma head_number v c r : rp v = c :: r -> (isdigit c = true \/ c = cMINUS) -> nonbracket c /\ head_ok c.
  Proof.
    intros _ Hc. destruct (digit_or_minus_not_quote c Hc) as (_ & _ & B1 & B2 & B3 & C1 & C2 & C3).
    repeat split; assumption.
  Qed.

  Lemma float_token_head t : float_token t = true -> exists c r, t = c :: r /\ (isdigit c = true \/ c = cMINUS).
  Proof.
    unfold float_token. intros H. apply andb_true_iff in H. destruct H as [H _].
    apply andb_true_iff in H. destruct H as [H _]. destruct t as [|c r]; [discriminate|].
    exists c, r. split; [reflexivity|]. apply orb_true_iff in H. destruct H as [H|H]; [auto|right; now apply Z.eqb_eq].
  Qed.

  (* head character of any printed value *)
  Lemma head_swf v : exists c t, rp v = c :: t /\ head_ok c.
  Proof.
    destruct v as [|b|z|f|s|l|l|l|l].
    - eexists; eexists; (split; [reflexivity|repeat split]).
    - destruct b; eexists; eexists; (split; [reflexivity|repeat split]).
    - destruct (repr_int_shape z) as (c & r & E & Hc & _). exists c, r. split; [exact E|].
      exact (proj2 (head_number (VInt z) c r E Hc)).
    - pose proof (H_float f) as Hf. destruct (ffinite f).
      + destruct Hf as [Ht _]. destruct (float_token_head _ Ht) as (c & r & E & Hc).
        exists c, r. split; [exact E|]. exact (proj2 (head_number (VFloat f) c r E Hc)).
      + apply nonfinite_head. exact Hf.
    - change (rp (VStr s)) with (repr_str printable s). unfold repr_str.
      eexists; eexists; split; [reflexivity|]. destruct (quote_for_quote s) as [-> | ->]; repeat split.
    - eexists; eexists; (split; [apply repr_VList|repeat split]).
    - rewrite repr_VTuple. destruct l as [|a [|b r]]; eexists; eexists; (split; [reflexivity|repeat split]).
    - rewrite repr_VSet. destruct l; eexists; eexists; (split; [reflexivity|repeat split]).
    - eexists; eexists; (split; [apply repr_VDict|repeat split]).
  Qed.

  Lemma expect_head_none' close v Y :
    (close = cRB \/ close = cRP \/ close = cRC) -> expect close (rp v ++ Y) = None.
  Proof.
    intros Hc. destruct (head_swf v) as (c & t & E & H1 & H2 & H3). rewrite E. cbn [app expect].
    destruct Hc as [-> | [-> | ->]]; [rewrite H1|rewrite H2|rewrite H3]; reflexivity.
  Qed.

  Lemma Q_none : Q VNone.
  Proof. apply (Q_atom VNone 78%Z [111; 110; 101]%Z); [reflexivity|reflexivity|repeat split]. Qed.
  Lemma Q_bool b : Q (VBool b).
  Proof.
    destruct b.
    - apply (Q_atom (VBool true) 84%Z [114; 117; 101]%Z); [reflexivity|reflexivity|repeat split].
    - apply (Q_atom (VBool false) 70%Z [97; 108; 115; 101]%Z); [reflexivity|reflexivity|repeat split].
  Qed.
  Lemma Q_int z : Q (VInt z).
  Proof.
    destruct (repr_int_shape z) as (c & r & E & Hc & _).
    apply (Q_atom (VInt z) c r); [reflexivity|exact E|]. exact (proj1 (head_number (VInt z) c r E Hc)).
  Qed.
  Lemma Q_float f : Q (VFloat f).
  Proof.
    pose proof (H_float f) as Hf. destruct (ffinite f) eqn:Ef.
    - destruct Hf as [Ht _]. destruct (float_token_head _ Ht) as (c & r & E & Hc).
      apply (Q_atom (VFloat f) c r); [exact Ef|exact E|]. exact (proj1 (head_number (VFloat f) c r E Hc)).
    - intros _ rest fuel v' rest' _ H. change (rp (VFloat f)) with (frepr f) in H.
      rewrite nonfinite_unreadable in H by exact Hf. discriminate.
  Qed.
  Lemma Q_str s : Q (VStr s).
  Proof.
    intros Hw. revert Hw. change (swf (VStr s)) with (vwf (VStr s)). intros Hw.
    change (rp (VStr s)) with (repr_str printable s). unfold repr_str.
    refine (Q_atom (VStr s) (quote_for s) _ Hw eq_refl _ Hw).
    destruct (quote_for_quote s) as [-> | ->]; repeat split.
  Qed.
  Lemma Q_set0 : Q (VSet []).
  Proof. apply (Q_atom (VSet []) 115%Z [101; 116; 40; 41]%Z); [reflexivity|reflexivity|repeat split]. Qed.

  Lemma tail_inv l : Forall Q l -> forallb swf l = true ->
    forall rest fuel vs s2, starts_with tSep rest = None -> delim_ok rest = true ->
      ptail fuel (tail_text l ++ rest) = Some (vs, s2) -> vs = l /\ s2 = rest.
  Proof.
    induction 1 as [|x r Hx Hr IH]; intros Hw rest fuel vs s2 Hs Hd H.
    - destruct fuel; [discriminate|]. cbn [tail_text flat_map app] in H. rewrite ptail_S, Hs in H.
      injection H as <- <-. auto.
    - cbn [forallb] in Hw. apply andb_true_iff in Hw. destruct Hw as [Hwx Hwr].
      destruct fuel; [discriminate|].
      unfold tail_text in *. cbn [flat_map] in H. rewrite <- !app_assoc in H.
      rewrite ptail_S, starts_with_app in H.
      destruct (pval fuel _) as [[v1 s1]|] eqn:E1 in H; [|discriminate].
      apply (Hx Hwx) in E1; [|apply delim_tail; exact Hd]. destruct E1 as [-> ->].
      destruct (ptail fuel _) as [[vs1 s3]|] eqn:E2 in H; [|discriminate].
      apply IH in E2; auto. destruct E2 as [-> ->]. injection H as <- <-. auto.
  Qed.

  Lemma pairs_inv l : Forall (fun kv => Q (fst kv) /\ Q (snd kv)) l ->
    forallb (fun kv => let '(k, x) := kv in swf k && swf x) l = true ->
    forall rest fuel vs s2, starts_with tSep rest = None -> delim_ok rest = true ->
      ppairs fuel (pairs_text l ++ rest) = Some (vs, s2) -> vs = l /\ s2 = rest.
  Proof.
    induction 1 as [|[k x] r [Hk Hx] Hr IH]; intros Hw rest fuel vs s2 Hs Hd H.
    - destruct fuel; [discriminate|]. cbn [pairs_text flat_map app] in H. rewrite ppairs_S, Hs in H.
      injection H as <- <-. auto.
    - cbn [forallb] in Hw. apply andb_true_iff in Hw. destruct Hw as [Hwk Hwr].
      apply andb_true_iff in Hwk. destruct Hwk as [Hwk Hwx]. cbn [fst snd] in *.
      destruct fuel; [discriminate|].
      unfold pairs_text in *. cbn [flat_map pair_text] in H. rewrite <- !app_assoc in H.
      rewrite ppairs_S, starts_with_app in H.
      destruct (pval fuel _) as [[v1 s1]|] eqn:E1 in H; [|discriminate].
      apply (Hk Hwk) in E1; [|reflexivity]. destruct E1 as [-> ->].
      rewrite starts_with_app in H.
      destruct (pval fuel _) as [[v2 s3]|] eqn:E2 in H; [|discriminate].
      apply (Hx Hwx) in E2; [|apply delim_pairs; exact Hd]. destruct E2 as [-> ->].
      destruct (ppairs fuel _) as [[vs1 s4]|] eqn:E3 in H; [|discriminate].
      apply IH in E3; auto. destruct E3 as [-> ->]. injection H as <- <-. auto.
  Qed.

  Lemma Q_list l : Forall Q l -> Q (VList l).
  Proof.
    intros HF Hw rest fuel v' rest' Hd H. cbn [swf] in Hw. destruct fuel; [discriminate|].
    rewrite repr_VList in H. destruct l as [|a r].
    - cbn [map join app] in H. rewrite pval_list, expect_refl in H. injection H as <- <-. auto.
    - rewrite join_reprs in H. cbn [forallb] in Hw. apply andb_true_iff in Hw. destruct Hw as [Hwa Hwr].
      inversion HF as [|? ? Ha Hr]; subst.
      rewrite <- app_comm_cons, <- !app_assoc in H. cbn [app] in H.
      rewrite pval_list, expect_head_none' in H by auto.
      destruct (pval fuel _) as [[v1 s1]|] eqn:E1 in H; [|discriminate].
      apply (Ha Hwa) in E1; [|apply delim_tail; reflexivity]. destruct E1 as [-> ->].
      destruct (ptail fuel _) as [[vs s2]|] eqn:E2 in H; [|discriminate].
      apply (tail_inv r Hr Hwr) in E2; [|reflexivity|reflexivity]. destruct E2 as [-> ->].
      rewrite expect_refl in H. injection H as <- <-. auto.
  Qed.

  Lemma Q_set l : Forall Q l -> Q (VSet l).
  Proof.
    intros HF. destruct l as [|a r]; [exact Q_set0|].
    intros Hw rest fuel v' rest' Hd H. cbn [swf] in Hw. destruct fuel; [discriminate|].
    rewrite repr_VSet, join_reprs in H. cbn [forallb] in Hw. apply andb_true_iff in Hw. destruct Hw as [Hwa Hwr].
    inversion HF as [|? ? Ha Hr]; subst.
    rewrite <- app_comm_cons, <- !app_assoc in H. cbn [app] in H.
    rewrite pval_brace, expect_head_none' in H by auto.
    destruct (pval fuel _) as [[v1 s1]|] eqn:E1 in H; [|discriminate].
    apply (Ha Hwa) in E1; [|apply delim_tail; reflexivity]. destruct E1 as [-> ->].
    assert (Hk : starts_with tKV (tail_text r ++ cRC :: rest) = None) by (destruct r; reflexivity).
    rewrite Hk in H.
    destruct (ptail fuel _) as [[vs s2]|] eqn:E2 in H; [|discriminate].
    apply (tail_inv r Hr Hwr) in E2; [|reflexivity|reflexivity]. destruct E2 as [-> ->].
    rewrite expect_refl in H. injection H as <- <-. auto.
  Qed.

  Lemma Q_tuple l : Forall Q l -> Q (VTuple l).
  Proof.
    intros HF Hw rest fuel v' rest' Hd H. cbn [swf] in Hw. destruct fuel; [discriminate|].
    rewrite repr_VTuple in H. destruct l as [|a r].
    - cbn [map join app] in H. rewrite pval_tuple, expect_refl in H. injection H as <- <-. auto.
    - cbn [forallb] in Hw. apply andb_true_iff in Hw. destruct Hw as [Hwa Hwr].
      inversion HF as [|? ? Ha Hr]; subst.
      destruct r as [|b r].
      + rewrite <- app_comm_cons, <- !app_assoc in H. cbn [app] in H.
        rewrite pval_tuple, expect_head_none' in H by auto.
        destruct (pval fuel _) as [[v1 s1]|] eqn:E1 in H; [|discriminate].
        apply (Ha Hwa) in E1; [|reflexivity]. destruct E1 as [-> ->].
        destruct fuel; [discriminate|]. rewrite ptail_S in H. cbn in H. injection H as <- <-. auto.
      + rewrite join_reprs in H. rewrite <- app_comm_cons, <- !app_assoc in H. cbn [app] in H.
        rewrite pval_tuple, expect_head_none' in H by auto.
        destruct (pval fuel _) as [[v1 s1]|] eqn:E1 in H; [|discriminate].
        apply (Ha Hwa) in E1; [|apply delim_tail; reflexivity]. destruct E1 as [-> ->].
        destruct (ptail fuel _) as [[vs s2]|] eqn:E2 in H; [|discriminate].
        apply (tail_inv (b :: r) Hr Hwr) in E2; [|reflexivity|reflexivity]. destruct E2 as [-> ->].
        rewrite expect_refl in H. injection H as <- <-. auto.
  Qed.

  Lemma Q_dict l : Forall (fun kv => Q (fst kv) /\ Q (snd kv)) l -> Q (VDict l).
  Proof.
    intros HF Hw rest fuel v' rest' Hd H. cbn [swf] in Hw. destruct fuel; [discriminate|].
    rewrite repr_VDict in H. destruct l as [|[k x] r].
    - cbn [map join app] in H. rewrite pval_brace, expect_refl in H. injection H as <- <-. auto.
    - rewrite join_pairs in H. cbn [pair_text] in H.
      cbn [forallb] in Hw. apply andb_true_iff in Hw. destruct Hw as [Hwk Hwr].
      apply andb_true_iff in Hwk. destruct Hwk as [Hwk Hwx].
      inversion HF as [|? ? [Hk Hx] Hr]; subst. cbn [fst snd] in *.
      rewrite <- app_comm_cons, <- !app_assoc in H. cbn [app] in H.
      rewrite pval_brace, expect_head_none' in H by auto.
      destruct (pval fuel _) as [[v1 s1]|] eqn:E1 in H; [|discriminate].
      apply (Hk Hwk) in E1; [|reflexivity]. destruct E1 as [-> ->].
      rewrite starts_with_app in H.
      destruct (pval fuel _) as [[v2 s3]|] eqn:E2 in H; [|discriminate].
      apply (Hx Hwx) in E2; [|apply delim_pairs; reflexivity]. destruct E2 as [-> ->].
      destruct (ppairs fuel _) as [[vs s4]|] eqn:E3 in H; [|discriminate].
      apply (pairs_inv r Hr Hwr) in E3; [|reflexivity|reflexivity]. destruct E3 as [-> ->].
      rewrite expect_refl in H. injection H as <- <-. auto.
  Qed.

  Theorem Q_all v : Q v.
  Proof.
    induction v using pyval_ind'.
    - exact Q_none. - apply Q_bool. - apply Q_int. - apply Q_float. - apply Q_str.
    - now apply Q_list. - now apply Q_tuple. - now apply Q_set. - now apply Q_dict.
  Qed.

  (* whatever the printed text of a value is read back as, it is that value *)
  Theorem parse_repr_inv v v' : swf v = true -> parse F fparse (rp v) = Some v' -> v' = v.
  Proof.
    intros Hw. unfold parse.
    destruct (pval (S (length (rp v))) (rp v)) as [[v1 r1]|] eqn:E; [|discriminate].
    rewrite <- (app_nil_r (rp v)) in E at 2. apply (Q_all v Hw) in E; [|reflexivity].
    destruct E as [-> ->]. now intros [= <-].
  Qed.

  (* eval_var accepts only values whose repr it reads back as the same value *)
  Definition accepted (v : pv) : Prop := exists s, ev s = Some v.

  Theorem accepted_roundtrip v : accepted v -> swf v = true ->
    parse F fparse (rp v) = Some v /\ ev (rp v) = Some v.
  Proof.
    intros [s Hs] Hw. unfold eval_var in Hs.
    destruct (parse F fparse s) as [v0|]; [|discriminate].
    destruct (parse F fparse (rp v0)) as [v1|] eqn:E; [|discriminate].
    injection Hs as ->. pose proof (parse_repr_inv v v1 Hw E) as ->.
    split; [exact E|]. unfold eval_var. now rewrite E, E.
  Qed.

  (* the acceptance check refuses no value with finite floats *)
  Theorem finite_accepted v : vwf v = true -> ev (rp v) = Some v.
  Proof. intros Hw. unfold eval_var. now rewrite (parse_repr v Hw), (parse_repr v Hw). Qed.

  (* ---------- the run database and restart ---------- *)
  Local Notation rst := (restart F frepr fparse printable).
  Local Notation sto := (store F frepr printable).

  Definition vars_ok (vs : vars F) : Prop :=
    Forall (fun kv => accepted (snd kv) /\ swf (snd kv) = true) vs.

  Lemma assoc_app_last k (tv : vars F) k0 v0 :
    assoc Nat.eqb k (tv ++ [(k0, v0)]) =
    match assoc Nat.eqb k tv with
    | Some v => Some v
    | None => if Nat.eqb k k0 then Some v0 else None
    end.
  Proof.
    induction tv as [|[k1 v1] r IH]; cbn [app assoc]; [reflexivity|].
    destruct (Nat.eqb k k1); [reflexivity|exact IH].
  Qed.

  (* restart after a first start that accepted and stored [vs], with [tv]
     given on the command line: succeeds, and every name has the command-line
     value if there is one, else the original value *)
  Theorem restart_store vs : vars_ok vs -> forall tv,
    exists tv', rst tv (sto vs) = Some tv' /\
      forall k, assoc Nat.eqb k tv' =
                match assoc Nat.eqb k tv with Some v => Some v | None => assoc Nat.eqb k vs end.
  Proof.
    induction 1 as [|[k0 v0] vs [Ha Hw0] Hvs IH]; intros tv.
    - exists tv. split; [reflexivity|]. intros k. cbn [assoc]. destruct (assoc Nat.eqb k tv); reflexivity.
    - cbn [store map fst snd restart] in *. fold (sto vs).
      destruct (assoc Nat.eqb k0 tv) as [v1|] eqn:E0.
      + destruct (IH tv) as (tv' & R & A). exists tv'. split; [exact R|].
        intros k. rewrite A. cbn [assoc].
        destruct (assoc Nat.eqb k tv) eqn:Ek; [reflexivity|].
        destruct (Nat.eqb_spec k k0) as [->|_]; [congruence|reflexivity].
      + destruct (accepted_roundtrip v0 Ha Hw0) as [_ Hev]. rewrite Hev.
        destruct (IH (tv ++ [(k0, v0)])) as (tv' & R & A). exists tv'. split; [exact R|].
        intros k. rewrite A, assoc_app_last. cbn [assoc].
        destruct (assoc Nat.eqb k tv); [reflexivity|].
        destruct (Nat.eqb k k0); reflexivity.
  Qed.

  (* an overridden name is not even evaluated *)
  Lemma restart_overridden tv k v s rows :
    assoc Nat.eqb k tv = Some v -> rst tv ((k, s) :: rows) = rst tv rows.
  Proof. intros H1. cbn [restart]. now rewrite H1. Qed.
End Main.
