(* Proofs/XtrigLoopProofs.v — lemmas about Model/XtrigLoop.v (C33, main-loop call discipline) *)
From Coq Require Import List Bool ZArith Lia.
From Cylc Require Import Base.Util Model.Xtrig Model.XtrigLoop Proofs.XtrigProofs.
Import ListNotations.
Open Scope Z_scope.

(* ---- calls never forget a success and never re-submit a succeeded signature ---- *)
Lemma xstep_call_sat_mono st tid now st' evs s :
  xstep st (XCall tid now) = (st', evs) -> In s (s_sat st) -> In s (s_sat st').
Proof.
  cbn [xstep]. destruct (find_task tid (s_tasks st)) as [t|]; intros [= <- <-] H; [|exact H].
  cbn [s_sat].
  apply (fold_call_inv now (fun c => In s (c_sat c))); [|exact H].
  intros c e c' Hc Heff.
  destruct Heff as [->|? ? Hs'|? ? ? Hs'|? ? ? ? ? Hs']; auto; rewrite Hs'; auto. apply in_app_iff. auto.
Qed.

Lemma xstep_call_tasks_ids st tid now st' evs :
  xstep st (XCall tid now) = (st', evs) -> map x_id (s_tasks st') = map x_id (s_tasks st).
Proof.
  cbn [xstep]. destruct (find_task tid (s_tasks st)) as [t|] eqn:E; intros [= <- <-]; [|reflexivity].
  cbn [s_tasks]. unfold set_task. rewrite map_map. apply map_ext_in. intros u Hu.
  destruct (Nat.eqb_spec (x_id u) tid); cbn; congruence.
Qed.

Lemma pass_calls_keep now s : forall pool st st' evs called,
  pass_calls st now pool = (st', evs, called) -> In s (s_sat st) ->
  In s (s_sat st') /\ (forall n iv, ~ In (EvSubmit s n iv) evs).
Proof.
  induction pool as [|[tid elig] r IH]; intros st st' evs called; cbn [pass_calls].
  - intros [= <- <- <-] H. split; [exact H|]. intros n iv [].
  - destruct (elig && needs_call st tid).
    + destruct (xstep st (XCall tid now)) as [st1 ev1] eqn:E1.
      destruct (pass_calls st1 now r) as [[st2 ev2] c2] eqn:E2.
      intros [= <- <- <-] H.
      pose proof (xstep_call_sat_mono _ _ _ _ _ s E1 H) as H1.
      destruct (IH _ _ _ _ E2 H1) as [H2 H3]. split; [exact H2|].
      intros n iv Hin. apply in_app_iff in Hin. destruct Hin as [Hin|Hin]; [|exact (H3 n iv Hin)].
      destruct (xstep_submit_guard _ _ _ _ E1 s n iv Hin) as [_ Hns]. exact (Hns H).
    + intros E H. exact (IH _ _ _ _ E H).
Qed.

Lemma needed_sigs_spec tids ts s :
  In s (needed_sigs tids ts) <->
  exists t e, In t ts /\ In (x_id t) tids /\ In e (x_entries t) /\ e_sat e = false /\ e_sig e = s.
Proof.
  unfold needed_sigs. rewrite in_flat_map. split.
  - intros [t [Ht Hs]]. destruct (mem Nat.eqb (x_id t) tids) eqn:Em; [|destruct Hs].
    apply in_map_iff in Hs. destruct Hs as [e [<- He]]. unfold unsat in He. apply filter_In in He.
    destruct He as [He Hn]. exists t, e. repeat split; auto.
    + apply mem_In in Em; [exact Em|]. intros a b. apply Nat.eqb_eq.
    + now apply negb_true_iff in Hn.
  - intros (t & e & Ht & Hid & He & Hu & <-). exists t. split; [exact Ht|].
    assert (Em : mem Nat.eqb (x_id t) tids = true).
    { apply mem_In; [intros a b; apply Nat.eqb_eq|exact Hid]. }
    rewrite Em. apply in_map. unfold unsat. apply filter_In. split; [exact He|]. now rewrite Hu.
Qed.

(* THE main-loop theorem: a succeeded signature that SOME pooled task (whatever
   its runahead / queued / held flags: [pool_hk] lists every pooled task) still
   has unsatisfied survives the pass, and its function is not called in the pass *)
Theorem pass_keeps_needed st now pool pool_hk st' evs res s :
  lstep true st (LPass now pool pool_hk) = (st', evs, res) ->
  In s (s_sat (l_x st)) ->
  In s (needed_sigs pool_hk (s_tasks (l_x st'))) ->
  In s (s_sat (l_x st')) /\ (forall n iv, ~ In (EvSubmit s n iv) evs).
Proof.
  cbn [lstep]. destruct (pass_calls (l_x st) now pool) as [[x1 ev1] called] eqn:Ep.
  intros E Hs Hn. destruct (pass_calls_keep now s _ _ _ _ _ Ep Hs) as [H1 H2].
  destruct (l_due st || has_succeed ev1).
  - destruct (xstep x1 (XHousekeep pool_hk)) as [x2 ev2] eqn:Eh. injection E as <- <- _. cbn [l_x] in *.
    assert (Ht : s_tasks x2 = s_tasks x1) by (cbn [xstep] in Eh; injection Eh as <- _; reflexivity).
    rewrite Ht in Hn. split.
    + eapply xstep_housekeep_keeps; eauto.
    + intros n iv Hin. apply in_app_iff in Hin. destruct Hin as [Hin|Hin]; [exact (H2 n iv Hin)|].
      cbn [xstep] in Eh. injection Eh as _ <-. apply in_map_iff in Hin. destruct Hin as [x [Hx _]]. discriminate.
  - injection E as <- <- _. cbn [l_x]. auto.
Qed.

Lemma xstep_callback_sat_mono st s0 ok st' evs s :
  xstep st (XCallback s0 ok) = (st', evs) -> In s (s_sat st) -> In s (s_sat st').
Proof.
  cbn [xstep]. destruct (smem s0 (s_active st)); [destruct ok|]; intros [= <- <-] H; cbn [s_sat]; auto.
  destruct (smem s0 (s_sat st)); [exact H|apply in_app_iff; now left].
Qed.

(* in every step of the loop: a succeeded signature disappears only in a pass
   whose housekeeping found NO pooled task needing it *)
Theorem loop_forgets_only_unneeded st o st' evs res s :
  lstep true st o = (st', evs, res) ->
  In s (s_sat (l_x st)) -> ~ In s (s_sat (l_x st')) ->
  exists now pool pool_hk, o = LPass now pool pool_hk /\ ~ In s (needed_sigs pool_hk (s_tasks (l_x st'))).
Proof.
  destruct o as [t|s0 ok|now pool pool_hk].
  - cbn [lstep]. intros [= <- _ _] H Hn. exfalso. apply Hn. exact H.
  - cbn [lstep]. destruct (xstep (l_x st) (XCallback s0 ok)) as [x' ev] eqn:E. intros [= <- _ _] H Hn.
    exfalso. apply Hn. cbn [l_x]. eapply xstep_callback_sat_mono; eauto.
  - intros E H Hn. exists now, pool, pool_hk. split; [reflexivity|]. intros Hneed.
    destruct (pass_keeps_needed _ _ _ _ _ _ _ s E H Hneed) as [Hk _]. exact (Hn Hk).
Qed.

(* ---- trace-level discipline for the loop (both variants) ---- *)
Lemma pass_calls_interval s now : forall pool acc st st' evs called,
  pass_calls st now pool = (st', evs, called) -> tnext_tracks s acc (s_tnext st) ->
  intervals_ok s acc evs /\ tnext_tracks s (expect s acc evs) (s_tnext st').
Proof.
  induction pool as [|[tid elig] r IH]; intros acc st st' evs called; cbn [pass_calls].
  - intros [= <- <- <-] H. cbn. auto.
  - destruct (elig && needs_call st tid).
    + destruct (xstep st (XCall tid now)) as [st1 ev1] eqn:E1.
      destruct (pass_calls st1 now r) as [[st2 ev2] c2] eqn:E2.
      intros [= <- <- <-] H. destruct (xstep_interval s acc _ _ _ _ E1 H) as [H1 H2].
      destruct (IH _ _ _ _ _ E2 H2) as [H3 H4]. split.
      * apply intervals_ok_app. auto.
      * rewrite expect_app. exact H4.
    + intros E H. exact (IH _ _ _ _ _ E H).
Qed.

Lemma lstep_interval s hk acc st o st' evs res :
  lstep hk st o = (st', evs, res) -> tnext_tracks s acc (s_tnext (l_x st)) ->
  intervals_ok s acc evs /\ tnext_tracks s (expect s acc evs) (s_tnext (l_x st')).
Proof.
  destruct o as [t|s0 ok|now pool pool_hk]; cbn [lstep].
  - intros [= <- <- _] H. cbn. auto.
  - destruct (xstep (l_x st) (XCallback s0 ok)) as [x' ev] eqn:E. intros [= <- <- _] H. cbn [l_x].
    exact (xstep_interval s acc _ _ _ _ E H).
  - destruct (pass_calls (l_x st) now pool) as [[x1 ev1] called] eqn:Ep. intros E H.
    destruct (pass_calls_interval s now _ _ _ _ _ _ Ep H) as [H1 H2].
    destruct (l_due st || has_succeed ev1).
    + destruct (xstep x1 (XHousekeep (if hk then pool_hk else called))) as [x2 ev2] eqn:Eh.
      injection E as <- <- _. cbn [l_x]. destruct (xstep_interval s _ _ _ _ _ Eh H2) as [H3 H4]. split.
      * apply intervals_ok_app. auto.
      * rewrite expect_app. exact H4.
    + injection E as <- <- _. cbn [l_x]. auto.
Qed.

Lemma lrun_interval s hk : forall ops acc st st' evs,
  lrun hk st ops = (st', evs) -> tnext_tracks s acc (s_tnext (l_x st)) ->
  intervals_ok s acc evs /\ tnext_tracks s (expect s acc evs) (s_tnext (l_x st')).
Proof.
  induction ops as [|o r IH]; intros acc st st' evs; cbn [lrun].
  - intros [= <- <-] H. cbn. auto.
  - destruct (lstep hk st o) as [[st1 ev1] res] eqn:E1. destruct (lrun hk st1 r) as [st2 ev2] eqn:E2.
    intros [= <- <-] H. destruct (lstep_interval s hk acc _ _ _ _ _ E1 H) as [H1 H2].
    destruct (IH _ _ _ _ E2 H2) as [H3 H4]. split.
    + apply intervals_ok_app. auto.
    + rewrite expect_app. exact H4.
Qed.

Lemma pass_calls_no_resubmit s now : forall pool acc st st' evs called,
  pass_calls st now pool = (st', evs, called) -> sat_tracks s acc (s_sat st) ->
  no_resubmit_ok s acc evs /\ sat_tracks s (succ_state s acc evs) (s_sat st').
Proof.
  induction pool as [|[tid elig] r IH]; intros acc st st' evs called; cbn [pass_calls].
  - intros [= <- <- <-] H. cbn. auto.
  - destruct (elig && needs_call st tid).
    + destruct (xstep st (XCall tid now)) as [st1 ev1] eqn:E1.
      destruct (pass_calls st1 now r) as [[st2 ev2] c2] eqn:E2.
      intros [= <- <- <-] H. destruct (xstep_no_resubmit s acc _ _ _ _ E1 H) as [H1 H2].
      destruct (IH _ _ _ _ _ E2 H2) as [H3 H4]. split.
      * apply no_resubmit_ok_app. auto.
      * rewrite succ_state_app. exact H4.
    + intros E H. exact (IH _ _ _ _ _ E H).
Qed.

Lemma lstep_no_resubmit s hk acc st o st' evs res :
  lstep hk st o = (st', evs, res) -> sat_tracks s acc (s_sat (l_x st)) ->
  no_resubmit_ok s acc evs /\ sat_tracks s (succ_state s acc evs) (s_sat (l_x st')).
Proof.
  destruct o as [t|s0 ok|now pool pool_hk]; cbn [lstep].
  - intros [= <- <- _] H. cbn. auto.
  - destruct (xstep (l_x st) (XCallback s0 ok)) as [x' ev] eqn:E. intros [= <- <- _] H. cbn [l_x].
    exact (xstep_no_resubmit s acc _ _ _ _ E H).
  - destruct (pass_calls (l_x st) now pool) as [[x1 ev1] called] eqn:Ep. intros E H.
    destruct (pass_calls_no_resubmit s now _ _ _ _ _ _ Ep H) as [H1 H2].
    destruct (l_due st || has_succeed ev1).
    + destruct (xstep x1 (XHousekeep (if hk then pool_hk else called))) as [x2 ev2] eqn:Eh.
      injection E as <- <- _. cbn [l_x]. destruct (xstep_no_resubmit s _ _ _ _ _ Eh H2) as [H3 H4]. split.
      * apply no_resubmit_ok_app. auto.
      * rewrite succ_state_app. exact H4.
    + injection E as <- <- _. cbn [l_x]. auto.
Qed.

Lemma lrun_no_resubmit s hk : forall ops acc st st' evs,
  lrun hk st ops = (st', evs) -> sat_tracks s acc (s_sat (l_x st)) ->
  no_resubmit_ok s acc evs /\ sat_tracks s (succ_state s acc evs) (s_sat (l_x st')).
Proof.
  induction ops as [|o r IH]; intros acc st st' evs; cbn [lrun].
  - intros [= <- <-] H. cbn. auto.
  - destruct (lstep hk st o) as [[st1 ev1] res] eqn:E1. destruct (lrun hk st1 r) as [st2 ev2] eqn:E2.
    intros [= <- <-] H. destruct (lstep_no_resubmit s hk acc _ _ _ _ _ E1 H) as [H1 H2].
    destruct (IH _ _ _ _ E2 H2) as [H3 H4]. split.
    + apply no_resubmit_ok_app. auto.
    + rewrite succ_state_app. exact H4.
Qed.

Lemma pass_calls_active_NoDup now : forall pool st st' evs called,
  pass_calls st now pool = (st', evs, called) -> NoDup (s_active st) -> NoDup (s_active st').
Proof.
  induction pool as [|[tid elig] r IH]; intros st st' evs called; cbn [pass_calls].
  - intros [= <- <- <-] H. exact H.
  - destruct (elig && needs_call st tid).
    + destruct (xstep st (XCall tid now)) as [st1 ev1] eqn:E1.
      destruct (pass_calls st1 now r) as [[st2 ev2] c2] eqn:E2.
      intros [= <- <- <-] H. eapply IH; [exact E2|]. eapply xstep_active_NoDup; eauto.
    + intros E H. exact (IH _ _ _ _ E H).
Qed.

Lemma lstep_active_NoDup hk st o st' evs res :
  lstep hk st o = (st', evs, res) -> NoDup (s_active (l_x st)) -> NoDup (s_active (l_x st')).
Proof.
  destruct o as [t|s0 ok|now pool pool_hk]; cbn [lstep].
  - intros [= <- _ _] H. exact H.
  - destruct (xstep (l_x st) (XCallback s0 ok)) as [x' ev] eqn:E. intros [= <- _ _] H. cbn [l_x].
    eapply xstep_active_NoDup; eauto.
  - destruct (pass_calls (l_x st) now pool) as [[x1 ev1] called] eqn:Ep. intros E H.
    pose proof (pass_calls_active_NoDup now _ _ _ _ _ Ep H) as H1.
    destruct (l_due st || has_succeed ev1).
    + destruct (xstep x1 (XHousekeep (if hk then pool_hk else called))) as [x2 ev2] eqn:Eh.
      injection E as <- _ _. cbn [l_x]. eapply xstep_active_NoDup; eauto.
    + injection E as <- _ _. cbn [l_x]. exact H1.
Qed.

Lemma lrun_active_NoDup hk : forall ops st st' evs,
  lrun hk st ops = (st', evs) -> NoDup (s_active (l_x st)) -> NoDup (s_active (l_x st')).
Proof.
  induction ops as [|o r IH]; intros st st' evs; cbn [lrun].
  - intros [= <- <-] H. exact H.
  - destruct (lstep hk st o) as [[st1 ev1] res] eqn:E1. destruct (lrun hk st1 r) as [st2 ev2] eqn:E2.
    intros [= <- <-] H. eapply IH; [exact E2|]. eapply lstep_active_NoDup; eauto.
Qed.
