(* Proofs/PoolProofs.v — invariants of every trace accepted by the pool monitor (Model/Pool.v) *)
From Coq Require Import List Bool Arith ZArith Lia.
From Cylc Require Import Base.Util Model.Pool.
Import ListNotations.
Open Scope Z_scope.

(* ------------------------------------------------------------------ *)
(* boolean equalities                                                   *)
(* ------------------------------------------------------------------ *)
Lemma tid_eqb_eq a b : tid_eqb a b = true <-> a = b.
Proof.
  destruct a as [p n], b as [p' n']; unfold tid_eqb; cbn.
  rewrite andb_true_iff, Z.eqb_eq, Nat.eqb_eq. split; [intros [-> ->]; reflexivity|intros [= -> ->]; auto].
Qed.
Lemma tid_eqb_refl a : tid_eqb a a = true.
Proof. apply tid_eqb_eq; reflexivity. Qed.
Lemma key_eqb_eq a b : key_eqb a b = true <-> a = b.
Proof.
  destruct a as [t o], b as [t' o']; unfold key_eqb; cbn.
  rewrite andb_true_iff, tid_eqb_eq, Nat.eqb_eq. split; [intros [-> ->]; reflexivity|intros [= -> ->]; auto].
Qed.
Lemma status_eqb_eq a b : status_eqb a b = true <-> a = b.
Proof. destruct a, b; cbn; split; intros H; try reflexivity; try discriminate. Qed.
Lemma mem_key_In k l : mem key_eqb k l = true <-> In k l.
Proof. apply mem_In. apply key_eqb_eq. Qed.
Lemma mem_tid_In k l : mem tid_eqb k l = true <-> In k l.
Proof. apply mem_In. apply tid_eqb_eq. Qed.

(* ------------------------------------------------------------------ *)
(* list-of-tasks plumbing                                               *)
(* ------------------------------------------------------------------ *)
Lemma find_task_In l t p : find_task l t = Some p -> In p l /\ p_id p = t.
Proof.
  induction l as [|x r IH]; cbn; [discriminate|].
  destruct (tid_eqb (p_id x) t) eqn:E.
  - intros [= <-]. apply tid_eqb_eq in E. auto.
  - intros H. destruct (IH H). auto.
Qed.
Lemma find_task_None l t : find_task l t = None -> forall p, In p l -> p_id p <> t.
Proof.
  induction l as [|x r IH]; cbn; [tauto|].
  destruct (tid_eqb (p_id x) t) eqn:E; [discriminate|].
  intros H p [<-|Hin]; [|eauto]. intros Heq. apply tid_eqb_eq in Heq. congruence.
Qed.
Lemma existsb_id_false l t :
  existsb (fun p => tid_eqb (p_id p) t) l = false -> ~ In t (map p_id l).
Proof.
  intros H Hin. apply in_map_iff in Hin. destruct Hin as [p [<- Hp]].
  assert (existsb (fun q => tid_eqb (p_id q) (p_id p)) l = true)
    by (apply existsb_exists; exists p; split; [auto|apply tid_eqb_refl]).
  congruence.
Qed.
Lemma update_task_ids l p' : map p_id (update_task l p') = map p_id l.
Proof.
  induction l as [|x r IH]; cbn; [reflexivity|].
  destruct (tid_eqb (p_id x) (p_id p')) eqn:E; cbn; [|now rewrite IH].
  apply tid_eqb_eq in E. now rewrite E.
Qed.
Lemma In_update_task l p' q : In q (update_task l p') -> q = p' \/ In q l.
Proof.
  induction l as [|x r IH]; cbn; [tauto|].
  destruct (tid_eqb (p_id x) (p_id p')); cbn; intros [H|H]; auto.
  destruct (IH H); auto.
Qed.
Lemma In_remove_task l t q : In q (remove_task l t) -> In q l.
Proof.
  induction l as [|x r IH]; cbn; [tauto|].
  destruct (tid_eqb (p_id x) t); cbn; [auto|]. intros [H|H]; auto.
Qed.
Lemma NoDup_remove_task l t : NoDup (map p_id l) -> NoDup (map p_id (remove_task l t)).
Proof.
  induction l as [|x r IH]; cbn; [auto|]. intros H. inversion H as [|? ? Hx Hr]; subst.
  destruct (tid_eqb (p_id x) t); cbn; [exact Hr|].
  constructor; [|auto]. intros Hin. apply Hx. apply in_map_iff in Hin.
  destruct Hin as [q [Hq Hin]]. apply in_map_iff. exists q. split; [auto|eapply In_remove_task; eauto].
Qed.

Lemma lookup_spec s t p inp :
  lookup s t = Some (p, inp) ->
  p_id p = t /\ (if inp then In p (pool s) else In p (limbo s)).
Proof.
  unfold lookup. destruct (find_task (pool s) t) as [p0|] eqn:E1.
  - intros [= <- <-]. apply find_task_In in E1. tauto.
  - destruct (find_task (limbo s) t) as [p0|] eqn:E2; [|discriminate].
    intros [= <- <-]. apply find_task_In in E2. tauto.
Qed.

(* all the field setters keep the id *)
Lemma set_status_id p st : p_id (set_status p st) = p_id p. Proof. reflexivity. Qed.
Lemma set_flags_id p h q r : p_id (set_flags p h q r) = p_id p. Proof. reflexivity. Qed.

(* what [store] does to the three task collections *)
Lemma store_pool_ids s p inp : map p_id (pool (store s p inp)) = map p_id (pool s).
Proof. unfold store. destruct inp; cbn; [apply update_task_ids|reflexivity]. Qed.
Lemma In_store s p inp q :
  In q (pool (store s p inp)) \/ In q (limbo (store s p inp)) ->
  q = p \/ In q (pool s) \/ In q (limbo s).
Proof.
  unfold store. destruct inp; cbn; intros [H|H]; auto;
    apply In_update_task in H; destruct H; auto.
Qed.
Lemma store_done s p inp : done (store s p inp) = done s.
Proof. unfold store; destruct inp; reflexivity. Qed.
Lemma store_abs s p inp : abs_done (store s p inp) = abs_done s.
Proof. unfold store; destruct inp; reflexivity. Qed.
Lemma store_subs s p inp : subs (store s p inp) = subs s.
Proof. unfold store; destruct inp; reflexivity. Qed.
Lemma store_saved s p inp : saved (store s p inp) = saved s.
Proof. unfold store; destruct inp; reflexivity. Qed.

(* ------------------------------------------------------------------ *)
(* expressions                                                          *)
(* ------------------------------------------------------------------ *)
Lemma bx_eval_mono (f g : key -> bool) e :
  (forall k, f k = true -> g k = true) -> bx_eval f e = true -> bx_eval g e = true.
Proof.
  intros Hfg. induction e as [k pre|a IHa b IHb|a IHa b IHb]; cbn.
  - rewrite !orb_true_iff. intros [H|H]; auto.
  - rewrite !andb_true_iff. tauto.
  - rewrite !orb_true_iff. tauto.
Qed.

(* Prop-level reading of a prerequisite expression *)
Fixpoint bx_holds (P : key -> Prop) (e : bx) : Prop :=
  match e with
  | BAtom k pre => pre = true \/ P k
  | BAnd a b => bx_holds P a /\ bx_holds P b
  | BOr a b => bx_holds P a \/ bx_holds P b
  end.
Lemma bx_eval_holds (f : key -> bool) (P : key -> Prop) e :
  (forall k, f k = true -> P k) -> bx_eval f e = true -> bx_holds P e.
Proof.
  intros Hf. induction e as [k pre|a IHa b IHb|a IHa b IHb]; cbn.
  - rewrite orb_true_iff. intros [H|H]; auto.
  - rewrite andb_true_iff. tauto.
  - rewrite orb_true_iff. tauto.
Qed.

Lemma sat_of_spec p k : sat_of p k = true <-> In k (p_sat p) \/ In k (p_forced p).
Proof. unfold sat_of. rewrite orb_true_iff, !mem_key_In. tauto. Qed.

Lemma prereqs_ok_mono i p p' :
  (forall k, In k (p_sat p) -> In k (p_sat p')) ->
  (forall k, In k (p_forced p) -> In k (p_forced p')) ->
  prereqs_ok i p = true -> prereqs_ok i p' = true.
Proof.
  unfold prereqs_ok. rewrite !forallb_forall. intros Hs Hf H e He.
  eapply bx_eval_mono; [|apply H; exact He].
  intros k. rewrite !sat_of_spec. intros [Hk|Hk]; auto.
Qed.
Lemma prereqs_ok_ext i p p' : p_sat p = p_sat p' -> p_forced p = p_forced p' -> prereqs_ok i p = prereqs_ok i p'.
Proof. unfold prereqs_ok, sat_of. intros -> ->. reflexivity. Qed.

(* ------------------------------------------------------------------ *)
(* accepted traces                                                      *)
(* ------------------------------------------------------------------ *)
Fixpoint exec (c : cfg) (s : mstate) (tr : list event) : option mstate :=
  match tr with
  | [] => Some s
  | e :: r => match step c s e with Ok s' => exec c s' r | Err _ => None end
  end.

Lemma run_from_exec c tr : forall s i,
  fst (run_from c s i tr) = None <-> exists s', exec c s tr = Some s'.
Proof.
  induction tr as [|e r IH]; intros s i; cbn.
  - split; eauto.
  - destruct (step c s e) as [s'|code]; [apply IH|].
    cbn. split; [discriminate|intros [s' H]; discriminate].
Qed.
Lemma run_accepts c tr : run c tr = None <-> exists s, exec c (init_state c) tr = Some s.
Proof. apply run_from_exec. Qed.

Lemma exec_app c tr1 : forall s tr2 s',
  exec c s (tr1 ++ tr2) = Some s' -> exists s1, exec c s tr1 = Some s1 /\ exec c s1 tr2 = Some s'.
Proof.
  induction tr1 as [|e r IH]; intros s tr2 s'; cbn; [eauto|].
  destruct (step c s e); [apply IH|discriminate].
Qed.
Lemma exec_snoc c tr e s s' :
  exec c s (tr ++ [e]) = Some s' -> exists s1, exec c s tr = Some s1 /\ step c s1 e = Ok s'.
Proof.
  intros H. apply exec_app in H. destruct H as [s1 [H1 H2]]. exists s1. split; [auto|].
  cbn in H2. destruct (step c s1 e); [congruence|discriminate].
Qed.

(* ------------------------------------------------------------------ *)
(* the invariant                                                        *)
(* ------------------------------------------------------------------ *)
Definition valid_id (c : cfg) (t : tid) : Prop :=
  (exists i, find_inst (c_insts c) t = Some i) /\ c_icp c <= fst t <= c_fcp c.

Definition needs_ok (p : ptask) : bool :=
  (negb (status_eqb (p_status p) Waiting) && negb (status_eqb (p_status p) Expired))
  || p_queued p || p_rel p.

Definition tracked (s : mstate) (p : ptask) : Prop := In p (pool s) \/ In p (limbo s).

Record Inv (c : cfg) (s : mstate) : Prop := {
  inv_nodup : NoDup (map p_id (pool s));
  inv_valid : forall p, tracked s p -> valid_id c (p_id p);
  inv_sat : forall p k, tracked s p -> In k (p_sat p) -> In k (done s);
  inv_abs : forall k, In k (abs_done s) -> In k (done s);
  inv_ok : forall p i, tracked s p -> find_inst (c_insts c) (p_id p) = Some i ->
           needs_ok p = true -> p_manual p = true \/ prereqs_ok i p = true;
  inv_subs : NoDup (subs s);
  inv_saved : forall p, In p (saved s) ->
      valid_id c (p_id p) /\ (forall k, In k (p_sat p) -> In k (done s)) /\
      (forall i, find_inst (c_insts c) (p_id p) = Some i -> needs_ok p = true ->
                 p_manual p = true \/ prereqs_ok i p = true);
}.

Lemma Inv_init c : Inv c (init_state c).
Proof.
  constructor; unfold tracked; cbn.
  - constructor.
  - intros p [[]|[]].
  - intros p k [[]|[]].
  - intros k [].
  - intros p i [[]|[]].
  - constructor.
  - intros p [].
Qed.

Lemma subset_keys_In a b : subset_keys a b = true -> forall k, In k a -> In k b.
Proof.
  unfold subset_keys. rewrite forallb_forall. intros H k Hk. apply mem_key_In. auto.
Qed.

Lemma expected_sat0_abs s i k : In k (expected_sat0 s i) -> In k (abs_done s).
Proof.
  unfold expected_sat0. intros H. apply in_map_iff in H. destruct H as [[k' pre] [<- H]].
  apply filter_In in H. destruct H as [_ H]. apply andb_true_iff in H. destruct H as [_ H].
  cbn. now apply mem_key_In.
Qed.

Lemma dedup_In {A} (eqb : A -> A -> bool) (Heq : forall x y, eqb x y = true <-> x = y) l x :
  In x (dedup eqb l) -> In x l.
Proof.
  induction l as [|y r IH]; cbn; [tauto|].
  destruct (mem eqb y r); cbn; [auto|]. intros [H|H]; auto.
Qed.

Lemma pair_eqb_sub_eq a b : pair_eqb tid_eqb Nat.eqb a b = true <-> a = b.
Proof.
  destruct a as [t n], b as [t' n']; unfold pair_eqb; cbn.
  rewrite andb_true_iff, tid_eqb_eq, Nat.eqb_eq. split; [intros [-> ->]; reflexivity|intros [= -> ->]; auto].
Qed.

(* hold bookkeeping does not touch anything the invariant talks about *)
Lemma Inv_with_hold c s l hp : Inv c s -> Inv c (with_hold s l hp).
Proof. intros [I1 I2 I3 I4 I5 I6 I7]. constructor; auto. Qed.
Lemma Inv_add_hold c s t : Inv c s -> Inv c (add_hold s t).
Proof. intros I. unfold add_hold. destruct (mem tid_eqb t (to_hold s)); [exact I|now apply Inv_with_hold]. Qed.
Lemma Inv_fold_add_hold c ids : forall s, Inv c s -> Inv c (fold_left add_hold ids s).
Proof. induction ids as [|t r IH]; intros s I; cbn; [exact I|]. apply IH. now apply Inv_add_hold. Qed.
Lemma add_hold_fields s t :
  pool (add_hold s t) = pool s /\ limbo (add_hold s t) = limbo s /\ done (add_hold s t) = done s /\
  abs_done (add_hold s t) = abs_done s /\ subs (add_hold s t) = subs s.
Proof. unfold add_hold. destruct (mem tid_eqb t (to_hold s)); cbn; repeat split. Qed.
Lemma lookup_add_hold s t t' : lookup (add_hold s t) t' = lookup s t'.
Proof. unfold lookup. destruct (add_hold_fields s t) as [-> [-> _]]. reflexivity. Qed.

Lemma NoDup_snoc {A} (l : list A) x : NoDup l -> ~ In x l -> NoDup (l ++ [x]).
Proof.
  intros Hl Hx. induction l as [|y r IH]; cbn; [repeat constructor; auto|].
  inversion Hl as [|? ? Hy Hr]; subst. constructor.
  - intros Hin. apply in_app_or in Hin. destruct Hin as [Hin|[->|[]]]; [auto|apply Hx; now left].
  - apply IH; [auto|]. intros Hin; apply Hx; now right.
Qed.

Lemma Inv_spawn c s t flows sat0 held s' :
  Inv c s -> step c s (ESpawn t flows sat0 held) = Ok s' -> Inv c s'.
Proof.
  intros I H. cbn [step] in H.
  destruct (find_inst (c_insts c) t) as [i|] eqn:Ei; [|discriminate].
  destruct (negb (Z.leb (c_icp c) (fst t) && Z.leb (fst t) (c_fcp c))) eqn:Eb; [discriminate|].
  destruct (existsb (fun p => tid_eqb (p_id p) t) (pool s)) eqn:Ep; [discriminate|].
  destruct (negb (subset_keys sat0 (expected_sat0 s i))) eqn:Es; [discriminate|].
  destruct (negb (Bool.eqb held (hold_expected s t))); [discriminate|].
  destruct (Z.ltb (fst t) (c_start c)); [discriminate|].
  injection H as <-. apply negb_false_iff in Eb, Es.
  assert (Hs1 : exists s1, (if held then add_hold s t else s) = s1 /\ Inv c s1 /\ pool s1 = pool s /\
                limbo s1 = limbo s /\ done s1 = done s /\ abs_done s1 = abs_done s /\ subs s1 = subs s).
  { destruct held.
    - exists (add_hold s t). destruct (add_hold_fields s t) as [? [? [? [? ?]]]].
      split; [reflexivity|]. split; [now apply Inv_add_hold|]. repeat split; assumption.
    - exists s. split; [reflexivity|]. split; [exact I|]. repeat split; reflexivity. }
  destruct Hs1 as [s1 [-> [I' [Hp1 [Hl1 [Hd1 [Ha1 Hsub1]]]]]]]. clear I.
  assert (Eexp : forall k, In k (expected_sat0 s i) -> In k (abs_done s1)).
  { intros k Hk. rewrite Ha1. eapply expected_sat0_abs; eauto. }
  rename I' into I. apply andb_true_iff in Eb.
  destruct Eb as [Eb1 Eb2]. apply Z.leb_le in Eb1, Eb2.
  destruct I as [I1 I2 I3 I4 I5 I6 I7]. unfold tracked in *. rewrite Hp1, Hl1 in *.
  constructor; unfold tracked; cbn.
  - rewrite Hp1. exact I1.
  - rewrite Hp1. intros p [Hp|[<-|Hp]].
    + apply I2. now left.
    + cbn. split; [eauto|lia].
    + apply I2. right. eapply In_remove_task; eauto.
  - rewrite Hp1. intros p k [Hp|[<-|Hp]] Hk.
    + eapply I3; [left; eauto|auto].
    + cbn in Hk. apply I4. apply Eexp. eapply subset_keys_In; eauto.
    + eapply I3; [right; eapply In_remove_task; eauto|auto].
  - exact I4.
  - rewrite Hp1. intros p i0 [Hp|[<-|Hp]] Hi Hn.
    + eapply I5; eauto.
    + cbn in Hn. discriminate.
    + eapply I5; eauto. right. eapply In_remove_task; eauto.
  - exact I6.
  - exact I7.
Qed.

Lemma Inv_add c s t s' : Inv c s -> step c s (EAdd t) = Ok s' -> Inv c s'.
Proof.
  intros I H. cbn [step] in H.
  destruct (find_task (limbo s) t) as [p|] eqn:Ef; [|discriminate].
  destruct (existsb (fun q => tid_eqb (p_id q) t) (pool s)) eqn:Ep; [discriminate|].
  injection H as <-. apply find_task_In in Ef. destruct Ef as [Hin Hid].
  destruct I as [I1 I2 I3 I4 I5 I6 I7].
  assert (Htr : forall q, In q (pool s ++ [p]) \/ In q (remove_task (limbo s) t) -> tracked s q).
  { intros q [Hq|Hq].
    - apply in_app_or in Hq. destruct Hq as [Hq|[<-|[]]]; [now left|now right].
    - right. eapply In_remove_task; eauto. }
  constructor; unfold tracked; cbn.
  - rewrite map_app. cbn. apply NoDup_snoc; [auto|]. rewrite Hid. now apply existsb_id_false.
  - intros q Hq. apply I2. auto.
  - intros q k Hq. apply I3. auto.
  - exact I4.
  - intros q i Hq. apply I5. auto.
  - exact I6.
  - exact I7.
Qed.

(* replacing one tracked task by an updated copy *)
Lemma Inv_store_in c s p (inp : bool) p' :
  Inv c s -> (if inp then In p (pool s) else In p (limbo s)) -> p_id p' = p_id p ->
  (forall k, In k (p_sat p') -> In k (done s)) ->
  (forall i, find_inst (c_insts c) (p_id p) = Some i -> needs_ok p' = true ->
             p_manual p' = true \/ prereqs_ok i p' = true) ->
  Inv c (store s p' inp).
Proof.
  intros [I1 I2 I3 I4 I5 I6 I7] Hin Hid Hsat Hok.
  assert (Htp : tracked s p) by (destruct inp; [now left|now right]).
  constructor.
  - rewrite store_pool_ids. exact I1.
  - intros q Hq. apply In_store in Hq. destruct Hq as [->|Hq]; [rewrite Hid; auto|auto].
  - intros q k Hq Hk. rewrite store_done. apply In_store in Hq.
    destruct Hq as [->|Hq]; [auto|eapply I3; eauto].
  - intros k. rewrite store_abs, store_done. apply I4.
  - intros q i Hq Hi Hn. apply In_store in Hq. destruct Hq as [->|Hq].
    + rewrite Hid in Hi. auto.
    + eapply I5; eauto.
  - rewrite store_subs. exact I6.
  - rewrite store_saved, store_done. exact I7.
Qed.

Lemma Inv_store c s t p inp p' :
  Inv c s -> lookup s t = Some (p, inp) -> p_id p' = p_id p ->
  (forall k, In k (p_sat p') -> In k (done s)) ->
  (forall i, find_inst (c_insts c) (p_id p) = Some i -> needs_ok p' = true ->
             p_manual p' = true \/ prereqs_ok i p' = true) ->
  Inv c (store s p' inp).
Proof.
  intros I Hl. apply lookup_spec in Hl. destruct Hl as [_ Hin]. eapply Inv_store_in; eauto.
Qed.

Lemma Inv_with_done c s l :
  Inv c s -> (forall k, In k (done s) -> In k l) -> Inv c (with_done s l).
Proof.
  intros [I1 I2 I3 I4 I5 I6 I7] Hl. constructor; unfold tracked; cbn.
  - exact I1.
  - exact I2.
  - intros p k Hp Hk. apply Hl. eapply I3; eauto.
  - intros k Hk. apply Hl. auto.
  - exact I5.
  - exact I6.
  - intros p Hp. destruct (I7 p Hp) as [A [B C]]. split; [exact A|]. split; [|exact C].
    intros k Hk. apply Hl. auto.
Qed.

Lemma Inv_sat c s t msgs new s' : Inv c s -> step c s (ESat t msgs new) = Ok s' -> Inv c s'.
Proof.
  intros I H. cbn [step] in H.
  destruct (lookup s t) as [[p inp]|] eqn:El; [|discriminate].
  destruct (find_inst (c_insts c) t) as [i|] eqn:Ei; [|discriminate].
  destruct (negb (forallb (fun k => out_done s (fst k) (snd k)) msgs)) eqn:Em; [discriminate|].
  match type of H with (if negb (same_keys new ?e) then _ else _) = _ => set (expect := e) in * end.
  destruct (negb (same_keys new expect)) eqn:En; [discriminate|].
  injection H as <-. apply negb_false_iff in Em, En.
  pose proof (lookup_spec _ _ _ _ El) as [Hpid Hin].
  assert (Htp : tracked s p) by (destruct inp; [now left|now right]).
  assert (Hnew : forall k, In k new -> In k (done s)).
  { intros k Hk. unfold same_keys in En. apply andb_true_iff in En. destruct En as [En _].
    pose proof (subset_keys_In _ _ En k Hk) as Hk'. unfold expect in Hk'.
    apply (dedup_In key_eqb key_eqb_eq) in Hk'. apply in_map_iff in Hk'.
    destruct Hk' as [[k' pre] [<- Hf]]. apply filter_In in Hf. destruct Hf as [_ Hf].
    apply andb_true_iff in Hf. destruct Hf as [Hf _]. apply andb_true_iff in Hf. destruct Hf as [_ Hf].
    cbn in *. apply mem_key_In in Hf. rewrite forallb_forall in Em. specialize (Em _ Hf).
    unfold out_done in Em. apply mem_key_In in Em. destruct k'; exact Em. }
  eapply Inv_store; eauto.
  - cbn. intros k Hk. apply in_app_or in Hk. destruct Hk as [Hk|Hk]; [auto|].
    destruct I as [_ _ I3 _ _ _ _]. eapply I3; eauto.
  - intros i0 Hi0 Hn. cbn in Hn. destruct I as [_ _ _ _ I5 _ _].
    destruct (I5 p i0 Htp Hi0 Hn) as [Hm|Hp]; [left; exact Hm|right].
    eapply prereqs_ok_mono; [| |exact Hp]; cbn; [intros k Hk; apply in_or_app; now right|auto].
Qed.

Lemma Inv_output c s t o s' : Inv c s -> step c s (EOutput t o) = Ok s' -> Inv c s'.
Proof.
  intros I H. cbn [step] in H.
  destruct (lookup s t) as [[p inp]|] eqn:El;
    [|injection H as <-; apply Inv_with_done; [exact I|intros k Hk; now right]].
  destruct (has_out (p_outs p) o); [discriminate|]. injection H as <-.
  pose proof (lookup_spec _ _ _ _ El) as [Hpid Hin].
  assert (Htp : tracked s p) by (destruct inp; [now left|now right]).
  apply Inv_with_done; [|rewrite store_done; intros k Hk; now right].
  eapply Inv_store; eauto.
  - cbn. intros k Hk. destruct I as [_ _ I3 _ _ _ _]. eapply I3; eauto.
  - intros i Hi Hn. destruct I as [_ _ _ _ I5 _ _]. exact (I5 p i Htp Hi Hn).
Qed.

Lemma ready_prereqs i p : ready i p = true -> prereqs_ok i p = true.
Proof. unfold ready. rewrite !andb_true_iff. tauto. Qed.

Lemma Inv_state c s t st h q r s' : Inv c s -> step c s (EState t st h q r) = Ok s' -> Inv c s'.
Proof.
  intros I H. cbn [step] in H.
  destruct (lookup s t) as [[p inp]|] eqn:El;
    [|destruct h; injection H as <-; [now apply Inv_add_hold|exact I]].
  destruct (find_inst (c_insts c) t) as [i|] eqn:Ei; [|discriminate].
  destruct (negb (status_eqb st (p_status p)) && negb (trans_ok p (p_status p) st) && negb (p_manual p)) eqn:E1;
    [discriminate|].
  destruct (q && negb (p_queued p) && negb (ready i (set_flags p h false r)) && negb (p_manual p)) eqn:E2;
    [discriminate|].
  destruct (negb r && p_runahead p && negb (within_limit s p) && negb (p_manual p) && negb (is_final (p_status p))) eqn:E3;
    [discriminate|].
  destruct (status_eqb st Preparing && negb (status_eqb (p_status p) Preparing) && p_held p && negb (p_manual p)) eqn:E4;
    [discriminate|].
  destruct (h && negb (p_held p) && negb (hold_expected s t)); [discriminate|].
  destruct (negb h && p_held p && mem tid_eqb t (to_hold s)); [discriminate|].
  injection H as <-.
  assert (Hs1 : Inv c (if h && negb (p_held p) then add_hold s t else s) /\
                lookup (if h && negb (p_held p) then add_hold s t else s) t = Some (p, inp)).
  { destruct (h && negb (p_held p)); [|split; assumption].
    split; [now apply Inv_add_hold|rewrite lookup_add_hold; exact El]. }
  destruct Hs1 as [I' El']. clear I El E3.
  generalize dependent (if h && negb (p_held p) then add_hold s t else s). clear s.
  intros s I El.
  pose proof (lookup_spec _ _ _ _ El) as [Hpid Hin].
  assert (Htp : tracked s p) by (destruct inp; [now left|now right]).
  eapply Inv_store; eauto.
  - cbn. intros k Hk. destruct I as [_ _ I3 _ _ _ _]. eapply I3; eauto.
  - intros i0 Hi0 Hn. rewrite Hpid in Hi0. rewrite Ei in Hi0. injection Hi0 as <-.
    destruct I as [_ _ _ _ I5 _ _].
    assert (Hold : needs_ok p = true -> p_manual p = true \/ prereqs_ok i p = true).
    { intros Hn'. apply (I5 p i Htp); [rewrite Hpid; exact Ei|exact Hn']. }
    cbn [p_manual set_flags set_status].
    rewrite (prereqs_ok_ext i _ p) by reflexivity.
    (* case analysis on why the new record needs its prerequisites *)
    destruct (p_manual p) eqn:Em; [now left|right].
    rewrite ?Em in E1, E2. cbn [negb] in E1, E2. rewrite !andb_true_r in E1, E2.
    destruct (needs_ok p) eqn:Eo; [destruct (Hold eq_refl) as [Hx|Hx]; [discriminate|exact Hx]|].
    (* the old record did not need it: so it was waiting/expired, not queued, not released *)
    unfold needs_ok in Eo, Hn. cbn [p_status p_queued p_rel set_flags set_status] in Hn.
    apply orb_false_iff in Eo. destruct Eo as [Eo Erel]. apply orb_false_iff in Eo. destruct Eo as [Est Eq].
    rewrite Eq in E2. cbn in E2.
    destruct q.
    + (* newly queued: the monitor checked readiness *)
      cbn in E2. apply negb_false_iff in E2. apply ready_prereqs in E2.
      rewrite (prereqs_ok_ext i _ p) in E2 by reflexivity. exact E2.
    + (* not queued: then the status must have left waiting/expired, which needs p_rel or manual *)
      exfalso. cbn in Hn. rewrite Erel in Hn.
      assert (Hrel' : (if status_eqb st Preparing then false else false) = false) by (destruct (status_eqb st Preparing); reflexivity).
      rewrite Hrel' in Hn. rewrite !orb_false_r in Hn.
      apply andb_true_iff in Hn. destruct Hn as [Hw He].
      apply negb_true_iff in Hw, He.
      (* old status is Waiting or Expired *)
      destruct (p_status p) eqn:Eps; cbn in Est; try discriminate.
      * (* Waiting -> st *) destruct st; cbn in Hw, He, E1; try discriminate;
          rewrite ?Erel, ?Em in E1; cbn in E1; discriminate.
      * (* Expired -> st *) destruct st; cbn in Hw, He, E1; discriminate.
Qed.

(* events that only touch bookkeeping fields *)
Lemma Inv_relq c s l : Inv c s -> Inv c (with_relq s l).
Proof. intros [I1 I2 I3 I4 I5 I6 I7]. constructor; auto. Qed.
Lemma Inv_limit c s l : Inv c s -> Inv c (with_limit s l).
Proof. intros [I1 I2 I3 I4 I5 I6 I7]. constructor; auto. Qed.

Lemma Inv_release c s l s' : Inv c s -> step c s (ERelease l) = Ok s' -> Inv c s'.
Proof.
  intros I H. cbn [step] in H.
  match type of H with (if negb (forallb ?f l) then _ else _) = _ => set (chk := f) in * end.
  destruct (negb (forallb chk l)) eqn:E1; [discriminate|].
  destruct (negb (release_ok c s _)) eqn:E2 in H; [discriminate|].
  injection H as <-. apply negb_false_iff in E1. rewrite forallb_forall in E1.
  destruct I as [I1 I2 I3 I4 I5 I6 I7].
  set (f := fun p => if mem tid_eqb (p_id p) l then set_rel p true else p).
  assert (Hid : forall p, p_id (f p) = p_id p) by (intros p; unfold f; destruct (mem tid_eqb (p_id p) l); reflexivity).
  assert (Hsat : forall p, p_sat (f p) = p_sat p) by (intros p; unfold f; destruct (mem tid_eqb (p_id p) l); reflexivity).
  assert (Hman : forall p, p_manual (f p) = p_manual p) by (intros p; unfold f; destruct (mem tid_eqb (p_id p) l); reflexivity).
  assert (Hfor : forall p, p_forced (f p) = p_forced p) by (intros p; unfold f; destruct (mem tid_eqb (p_id p) l); reflexivity).
  constructor; unfold tracked; cbn.
  - rewrite map_map. rewrite (map_ext _ p_id Hid). exact I1.
  - intros q [Hq|Hq]; [|apply I2; now right].
    apply in_map_iff in Hq. destruct Hq as [p [<- Hp]]. rewrite Hid. apply I2. now left.
  - intros q k [Hq|Hq] Hk; [|eapply I3; [right; eauto|auto]].
    apply in_map_iff in Hq. destruct Hq as [p [<- Hp]]. rewrite Hsat in Hk. eapply I3; [left; eauto|auto].
  - exact I4.
  - intros q i [Hq|Hq] Hi Hn; [|eapply I5; eauto; now right].
    apply in_map_iff in Hq. destruct Hq as [p [<- Hp]]. rewrite Hid in Hi. rewrite Hman.
    rewrite (prereqs_ok_ext i (f p) p (Hsat p) (Hfor p)).
    unfold f in Hn. destruct (mem tid_eqb (p_id p) l) eqn:Em.
    + apply mem_tid_In in Em. specialize (E1 _ Em). unfold chk in E1.
      destruct (find_task (pool s) (p_id p)) as [p0|] eqn:Ef; [|discriminate].
      rewrite Hi in E1. apply find_task_In in Ef. destruct Ef as [Hp0 Hid0].
      (* p0 = p because ids are unique in the pool *)
      assert (p0 = p).
      { clear -I1 Hp Hp0 Hid0. induction (pool s) as [|x r IH]; [destruct Hp|].
        cbn in I1. inversion I1 as [|? ? Hx Hr]; subst.
        destruct Hp as [->|Hp], Hp0 as [->|Hp0]; auto.
        - exfalso. apply Hx. apply in_map_iff. eauto.
        - exfalso. apply Hx. apply in_map_iff. exists p. auto. }
      subst p0. rewrite !andb_true_iff in E1. destruct E1 as [_ E1]. apply orb_true_iff in E1. exact E1.
    + eapply I5; eauto. now left.
  - exact I6.
  - exact I7.
Qed.

Lemma Inv_submit c s t sn s' : Inv c s -> step c s (ESubmit t sn) = Ok s' -> Inv c s'.
Proof.
  intros I H. cbn [step] in H.
  destruct (find_task (pool s) t) as [p|] eqn:Ef; [|discriminate].
  destruct (find_inst (c_insts c) t) as [i|] eqn:Ei; [|discriminate].
  destruct (negb (status_eqb (p_status p) Preparing)); [discriminate|].
  destruct (mem (pair_eqb tid_eqb Nat.eqb) (t, sn) (subs s)) eqn:Em; [discriminate|].
  destruct (negb (Nat.ltb _ (i_tries i)) && negb (p_manual p)) in H; [discriminate|].
  destruct (Z.ltb (stop_point s) (fst t) && negb (p_manual p)) in H; [discriminate|].
  injection H as <-.
  assert (El : lookup s t = Some (p, true)) by (unfold lookup; now rewrite Ef).
  pose proof (lookup_spec _ _ _ _ El) as [Hpid Hin].
  assert (Htp : tracked s p) by now left.
  assert (I' : Inv c (store s (set_sn p sn) true)).
  { eapply Inv_store; eauto.
    - cbn. intros k Hk. destruct I as [_ _ I3 _ _ _ _]. eapply I3; eauto.
    - intros i0 Hi0 Hn. destruct I as [_ _ _ _ I5 _ _]. exact (I5 p i0 Htp Hi0 Hn). }
  destruct I' as [J1 J2 J3 J4 J5 J6 J7]. unfold store in *. cbn in *.
  constructor; auto. cbn. constructor; [|exact J6].
  intros Hc. assert (mem (pair_eqb tid_eqb Nat.eqb) (t, sn) (subs s) = true)
    by (apply (mem_In _ pair_eqb_sub_eq); exact Hc). congruence.
Qed.

Lemma Inv_remove c s t b s' : Inv c s -> step c s (ERemove t b) = Ok s' -> Inv c s'.
Proof.
  intros I H. cbn [step] in H.
  destruct (find_task (pool s) t) as [p|] eqn:Ef; [|discriminate].
  destruct (find_inst (c_insts c) t) as [i|] eqn:Ei; [|discriminate].
  destruct (b && negb _) in H; [discriminate|]. injection H as <-.
  destruct I as [I1 I2 I3 I4 I5 I6 I7].
  constructor; unfold tracked; cbn.
  - now apply NoDup_remove_task.
  - intros q [Hq|Hq]; apply I2; [left; eapply In_remove_task; eauto|now right].
  - intros q k [Hq|Hq]; eapply I3; [left; eapply In_remove_task; eauto|now right].
  - exact I4.
  - intros q i0 [Hq|Hq]; eapply I5; [left; eapply In_remove_task; eauto|now right].
  - exact I6.
  - exact I7.
Qed.

Lemma Inv_merge c s t fl s' : Inv c s -> step c s (EMerge t fl) = Ok s' -> Inv c s'.
Proof.
  intros I H. cbn [step] in H.
  destruct (lookup s t) as [[p inp]|] eqn:El; [|discriminate]. injection H as <-.
  pose proof (lookup_spec _ _ _ _ El) as [Hpid Hin].
  assert (Htp : tracked s p) by (destruct inp; [now left|now right]).
  eapply Inv_store; eauto.
  - cbn. intros k Hk. destruct I as [_ _ I3 _ _ _ _]. eapply I3; eauto.
  - intros i Hi Hn. destruct I as [_ _ _ _ I5 _ _]. exact (I5 p i Htp Hi Hn).
Qed.

Lemma Inv_abs c s k s' : Inv c s -> step c s (EAbs k) = Ok s' -> Inv c s'.
Proof.
  intros I H. cbn [step] in H.
  destruct (out_done s (fst k) (snd k)) eqn:Eo; [|discriminate]. injection H as <-.
  destruct I as [I1 I2 I3 I4 I5 I6 I7]. constructor; unfold tracked; cbn; auto.
  intros k' [<-|Hk]; [|auto]. unfold out_done in Eo. apply mem_key_In in Eo. destruct k; exact Eo.
Qed.

Lemma tick_counters_fields c s p :
  p_id (tick_counters c s p) = p_id p /\ p_sat (tick_counters c s p) = p_sat p /\
  p_manual (tick_counters c s p) = p_manual p /\ needs_ok (tick_counters c s p) = needs_ok p /\
  p_forced (tick_counters c s p) = p_forced p.
Proof. unfold tick_counters. repeat split. Qed.

Lemma Inv_tick c s snap hl hp s' : Inv c s -> step c s (ETickEnd snap hl hp) = Ok s' -> Inv c s'.
Proof.
  intros I H. cbn [step] in H.
  destruct (negb (Nat.eqb (length snap) (length (pool s)))); [discriminate|].
  destruct (negb (same_tids hl (to_hold s) && option_eqb Z.eqb hp (hold_pt s))); [discriminate|].
  destruct (negb (forallb (fun p => Bool.eqb (p_held p) (mem tid_eqb (p_id p) (to_hold s))) (pool s))); [discriminate|].
  destruct (negb (forallb _ snap)) in H; [discriminate|].
  destruct (existsb _ _) in H; [discriminate|].
  destruct (existsb _ _) in H; [discriminate|].
  destruct (negb (forallb _ (pool s))) in H; [discriminate|].
  destruct (existsb _ (pool s)) in H; [discriminate|].
  injection H as <-.
  destruct I as [I1 I2 I3 I4 I5 I6 I7].
  constructor; unfold tracked; cbn.
  - rewrite map_map. rewrite (map_ext _ p_id) by (intros p; apply (tick_counters_fields c s p)). exact I1.
  - intros q [Hq|[]]. apply in_map_iff in Hq. destruct Hq as [p [<- Hp]].
    destruct (tick_counters_fields c s p) as [-> _]. apply I2. now left.
  - intros q k [Hq|[]] Hk. apply in_map_iff in Hq. destruct Hq as [p [<- Hp]].
    destruct (tick_counters_fields c s p) as [_ [Hs _]]. rewrite Hs in Hk. eapply I3; [left; eauto|auto].
  - exact I4.
  - intros q i [Hq|[]] Hi Hn. apply in_map_iff in Hq. destruct Hq as [p [<- Hp]].
    destruct (tick_counters_fields c s p) as [Hi' [Hs [Hm [Hno Hf]]]].
    rewrite Hi' in Hi. rewrite Hm. rewrite Hno in Hn.
    rewrite (prereqs_ok_ext i _ p Hs Hf). eapply I5; eauto. now left.
  - exact I6.
  - exact I7.
Qed.

Lemma Inv_with_stop c s sp m st : Inv c s -> Inv c (with_stop s sp m st).
Proof. intros [I1 I2 I3 I4 I5 I6 I7]. constructor; auto. Qed.
Lemma Inv_with_crash c s b : Inv c s -> Inv c (with_crash s b).
Proof. intros [I1 I2 I3 I4 I5 I6 I7]. constructor; auto. Qed.

Lemma Inv_with_bcast c s n : Inv c s -> Inv c (with_bcast s n).
Proof. intros [I1 I2 I3 I4 I5 I6 I7]. constructor; auto. Qed.

Lemma NoDup_filter {A} (f : A -> bool) l : NoDup l -> NoDup (filter f l).
Proof.
  induction 1 as [|x l Hx Hl IH]; cbn; [constructor|].
  destruct (f x); [|exact IH]. constructor; [|exact IH]. intros Hin. apply filter_In in Hin. tauto.
Qed.

Lemma Inv_crash c s s' : Inv c s -> step c s ECrash = Ok s' -> Inv c s'.
Proof.
  intros [I1 I2 I3 I4 I5 I6 I7] H. cbn [step] in H. injection H as <-.
  constructor; unfold tracked; cbn.
  - constructor.
  - intros p [[]|[]].
  - intros p k [[]|[]].
  - intros k [].
  - intros p i [[]|[]].
  - exact I6.
  - intros p [].
Qed.

Lemma restored_fields p :
  p_id (restored p) = p_id p /\ p_sat (restored p) = p_sat p /\ p_manual (restored p) = p_manual p.
Proof. unfold restored. repeat split. Qed.

Lemma restored_needs_ok p : needs_ok (restored p) = true -> needs_ok p = true.
Proof.
  unfold needs_ok, restored. cbn. destruct (p_status p); cbn; intros H; try discriminate; reflexivity.
Qed.

Lemma Inv_restart c s s' : Inv c s -> step c s ERestart = Ok s' -> Inv c s'.
Proof.
  intros [I1 I2 I3 I4 I5 I6 I7] H. cbn [step] in H. injection H as <-.
  apply Inv_with_crash.
  constructor; unfold tracked; cbn.
  - constructor.
  - intros p [[]|[]].
  - intros p k [[]|[]].
  - exact I4.
  - intros p i [[]|[]].
  - exact I6.
  - intros q Hq. apply in_map_iff in Hq. destruct Hq as [p [<- Hp]].
    destruct (restored_fields p) as [Hid [Hsat Hman]]. rewrite Hid, Hsat, Hman.
    split; [apply I2; now left|]. split; [intros k Hk; eapply I3; [left; eauto|auto]|].
    intros i Hi Hn. rewrite (prereqs_ok_ext i (restored p) p Hsat eq_refl).
    eapply I5; [left; eauto|exact Hi|now apply restored_needs_ok].
Qed.

Lemma Inv_restore_crash c s v s' :
  Inv c s -> crash_mode s = true -> step c s (ERestore v) = Ok s' -> Inv c s'.
Proof.
  intros [I1 I2 I3 I4 I5 I6 I7] Hc H. cbn [step] in H. rewrite Hc in H.
  destruct (find_inst (c_insts c) (v_id v)) as [i|] eqn:Ei; [|discriminate].
  destruct (negb (Z.leb (c_icp c) (fst (v_id v)) && Z.leb (fst (v_id v)) (c_fcp c))) eqn:Eb; [discriminate|].
  destruct (existsb (fun q => tid_eqb (p_id q) (v_id v)) (pool s)) eqn:Ep; [discriminate|].
  destruct (negb (forallb (fun k => mem key_eqb k (done s)) (v_sat v))) eqn:Es; [discriminate|].
  destruct (negb (forallb _ (v_outs v))); [discriminate|].
  match type of H with (if ?b then _ else _) = _ => destruct b eqn:Eo; [discriminate|] end.
  injection H as <-.
  apply negb_false_iff in Eb, Es. apply andb_true_iff in Eb. destruct Eb as [Eb1 Eb2]. apply Z.leb_le in Eb1, Eb2.
  rewrite forallb_forall in Es.
  constructor; unfold tracked; cbn.
  - rewrite map_app. cbn. apply NoDup_snoc; [auto|]. now apply existsb_id_false.
  - intros q [Hq|Hq]; [|apply I2; now right].
    apply in_app_or in Hq. destruct Hq as [Hq|[<-|[]]]; [apply I2; now left|]. cbn. split; [eauto|lia].
  - intros q k [Hq|Hq] Hk; [|eapply I3; [right; eauto|auto]].
    apply in_app_or in Hq. destruct Hq as [Hq|[<-|[]]]; [eapply I3; [left; eauto|auto]|].
    cbn in Hk. apply mem_key_In. auto.
  - exact I4.
  - intros q i0 [Hq|Hq] Hi Hn; [|eapply I5; eauto; now right].
    apply in_app_or in Hq. destruct Hq as [Hq|[<-|[]]]; [eapply I5; eauto; now left|].
    cbn in Hi. rewrite Ei in Hi. injection Hi as <-. right.
    unfold needs_ok in Hn. cbn in Hn. rewrite !orb_false_r in Hn. rewrite Hn in Eo. cbn in Eo.
    now apply negb_false_iff in Eo.
  - now apply NoDup_filter.
  - exact I7.
Qed.

Lemma Inv_restore c s v s' : Inv c s -> step c s (ERestore v) = Ok s' -> Inv c s'.
Proof.
  destruct (crash_mode s) eqn:Hc; [intros I H; eapply Inv_restore_crash; eauto|].
  intros [I1 I2 I3 I4 I5 I6 I7] H. cbn [step] in H. rewrite Hc in H.
  destruct (find_task (saved s) (v_id v)) as [p|] eqn:Ef; [|discriminate].
  destruct (negb (view_matches p v)); [discriminate|].
  destruct (existsb (fun q => tid_eqb (p_id q) (v_id v)) (pool s)) eqn:Ep; [discriminate|].
  injection H as <-. apply find_task_In in Ef. destruct Ef as [Hin Hid].
  destruct (I7 p Hin) as [A [B C]].
  constructor; unfold tracked; cbn.
  - rewrite map_app. cbn. apply NoDup_snoc; [auto|]. rewrite Hid. now apply existsb_id_false.
  - intros q [Hq|Hq]; [|apply I2; now right].
    apply in_app_or in Hq. destruct Hq as [Hq|[<-|[]]]; [apply I2; now left|exact A].
  - intros q k [Hq|Hq] Hk; [|eapply I3; [right; eauto|auto]].
    apply in_app_or in Hq. destruct Hq as [Hq|[<-|[]]]; [eapply I3; [left; eauto|auto]|auto].
  - exact I4.
  - intros q i [Hq|Hq] Hi Hn; [|eapply I5; eauto; now right].
    apply in_app_or in Hq. destruct Hq as [Hq|[<-|[]]]; [eapply I5; eauto; now left|auto].
  - exact I6.
  - intros q Hq. apply I7. eapply In_remove_task; eauto.
Qed.

Lemma Inv_spawnhist c s t st outs sn s' :
  Inv c s -> step c s (ESpawnHist t st outs sn) = Ok s' -> Inv c s'.
Proof.
  intros I H. cbn [step] in H.
  destruct (find_task (limbo s) t) as [p|] eqn:Ef; [|discriminate].
  destruct (negb _) in H; [discriminate|]. injection H as <-.
  apply find_task_In in Ef. destruct Ef as [Hin Hid].
  change (with_limbo s (update_task (limbo s) ?x)) with (store s x false).
  apply (Inv_store_in c s p false); [exact I|exact Hin|reflexivity| |].
  - cbn. intros k Hk. destruct I as [_ _ I3 _ _ _ _]. eapply I3; [right; eauto|auto].
  - intros i _ _. now left.
Qed.

Lemma Inv_transient c s t fl outs s' :
  Inv c s -> step c s (ETransient t fl outs) = Ok s' -> Inv c s'.
Proof.
  intros I H. cbn [step] in H.
  destruct (find_inst (c_insts c) t) as [i|] eqn:Ei; [|discriminate].
  destruct (negb (Z.leb (c_icp c) (fst t) && Z.leb (fst t) (c_fcp c))) eqn:Eb; [discriminate|].
  destruct (existsb _ (pool s)) in H; [discriminate|]. destruct (negb _) in H; [discriminate|].
  injection H as <-. apply negb_false_iff, andb_true_iff in Eb. destruct Eb as [E1 E2]. apply Z.leb_le in E1, E2.
  destruct I as [I1 I2 I3 I4 I5 I6 I7].
  constructor; unfold tracked; cbn.
  - exact I1.
  - intros p [Hp|[<-|Hp]]; [apply I2; now left|cbn; split; [eauto|lia]|apply I2; right; eapply In_remove_task; eauto].
  - intros p k [Hp|[<-|Hp]] Hk; [eapply I3; [left; eauto|auto]|destruct Hk|eapply I3; [right; eapply In_remove_task; eauto|auto]].
  - exact I4.
  - intros p i0 [Hp|[<-|Hp]] Hi Hn; [eapply I5; eauto; now left|now left|eapply I5; eauto; right; eapply In_remove_task; eauto].
  - exact I6.
  - exact I7.
Qed.

Lemma Inv_forcesat c s t keys s' : Inv c s -> step c s (EForceSat t keys) = Ok s' -> Inv c s'.
Proof.
  intros I H. cbn [step] in H.
  destruct (lookup s t) as [[p inp]|] eqn:El; [|injection H as <-; exact I].
  destruct (find_inst (c_insts c) t); [|discriminate]. destruct (negb _) in H; [discriminate|].
  injection H as <-.
  pose proof (lookup_spec _ _ _ _ El) as [Hpid Hin].
  assert (Htp : tracked s p) by (destruct inp; [now left|now right]).
  eapply Inv_store; eauto.
  - cbn. intros k Hk. destruct I as [_ _ I3 _ _ _ _]. eapply I3; eauto.
  - intros i0 Hi0 Hn. destruct I as [_ _ _ _ I5 _ _].
    destruct (I5 p i0 Htp Hi0 Hn) as [Hm|Hp]; [left; exact Hm|right].
    eapply prereqs_ok_mono; [| |exact Hp]; cbn; [auto|intros k Hk; apply in_or_app; now right].
Qed.

Lemma Inv_stateforced c s t st h q r s' : Inv c s -> step c s (EStateForced t st h q r) = Ok s' -> Inv c s'.
Proof.
  intros I H. cbn [step] in H.
  destruct (lookup s t) as [[p inp]|] eqn:El; [|injection H as <-; exact I].
  destruct (_ || _) in H; [discriminate|]. injection H as <-.
  pose proof (lookup_spec _ _ _ _ El) as [Hpid Hin].
  assert (Htp : tracked s p) by (destruct inp; [now left|now right]).
  apply (Inv_store c s t p inp); [exact I|exact El|reflexivity| |].
  - cbn. intros k Hk. destruct I as [_ _ I3 _ _ _ _]. eapply I3; eauto.
  - intros i0 _ _. now left.
Qed.

Lemma Inv_manual c s t s' : Inv c s -> step c s (EManual t) = Ok s' -> Inv c s'.
Proof.
  intros I H. cbn [step] in H.
  destruct (lookup s t) as [[p inp]|] eqn:El; [|injection H as <-; exact I]. injection H as <-.
  pose proof (lookup_spec _ _ _ _ El) as [Hpid Hin].
  assert (Htp : tracked s p) by (destruct inp; [now left|now right]).
  apply (Inv_store c s t p inp); [exact I|exact El|reflexivity| |].
  - cbn. intros k Hk. destruct I as [_ _ I3 _ _ _ _]. eapply I3; eauto.
  - intros i0 _ _. now left.
Qed.

Lemma Inv_cmdremove c s t s' : Inv c s -> step c s (ECmdRemove t) = Ok s' -> Inv c s'.
Proof.
  intros [I1 I2 I3 I4 I5 I6 I7] H. cbn [step] in H. injection H as <-.
  set (keep := fun k : key => negb (tid_eqb (fst k) t)).
  set (fix_task := fun p : ptask =>
        if forallb keep (p_sat p) then p else set_manual (set_sat p (filter keep (p_sat p))) true).
  assert (Fid : forall p, p_id (fix_task p) = p_id p)
    by (intros p; unfold fix_task; destruct (forallb keep (p_sat p)); reflexivity).
  assert (Fsat : forall p k, In k (p_sat (fix_task p)) -> In k (p_sat p) /\ keep k = true).
  { intros p k. unfold fix_task. destruct (forallb keep (p_sat p)) eqn:E; cbn.
    - intros Hk. split; [exact Hk|]. rewrite forallb_forall in E. auto.
    - intros Hk. apply filter_In in Hk. exact Hk. }
  assert (Fok : forall p i, (needs_ok p = true -> p_manual p = true \/ prereqs_ok i p = true) ->
                 needs_ok (fix_task p) = true -> p_manual (fix_task p) = true \/ prereqs_ok i (fix_task p) = true).
  { intros p i Hp. unfold fix_task. destruct (forallb keep (p_sat p)); [exact Hp|intros _; now left]. }
  assert (Fdone : forall k, In k (done s) -> keep k = true ->
            In k (filter (fun k => keep k || mem key_eqb k (abs_done s)) (done s))).
  { intros k Hk Hkeep. apply filter_In. split; [exact Hk|]. now rewrite Hkeep. }
  constructor; unfold tracked; cbn.
  - rewrite map_map. rewrite (map_ext _ p_id Fid). exact I1.
  - intros q [Hq|Hq]; apply in_map_iff in Hq; destruct Hq as [p [<- Hp]]; rewrite Fid; apply I2; [now left|now right].
  - intros q k [Hq|Hq] Hk; apply in_map_iff in Hq; destruct Hq as [p [<- Hp]];
      destruct (Fsat p k Hk) as [Hk1 Hk2]; apply Fdone; auto; eapply I3; eauto; [now left|now right].
  - intros k Hk. apply filter_In. split; [auto|]. apply mem_key_In in Hk. rewrite Hk. apply orb_true_r.
  - intros q i [Hq|Hq] Hi; apply in_map_iff in Hq; destruct Hq as [p [<- Hp]]; rewrite Fid in Hi;
      apply Fok; intros Hn; eapply I5; eauto; [now left|now right].
  - now apply NoDup_filter.
  - intros q Hq. apply in_map_iff in Hq. destruct Hq as [p [<- Hp]]. destruct (I7 p Hp) as [A [B C]].
    rewrite Fid. split; [exact A|]. split.
    + intros k Hk. destruct (Fsat p k Hk) as [Hk1 Hk2]. apply Fdone; auto.
    + intros i Hi. apply Fok. auto.
Qed.

(* one accepted step preserves the invariant *)
Lemma step_Inv c s e s' : Inv c s -> step c s e = Ok s' -> Inv c s'.
Proof.
  intros I H. destruct e.
  - eapply Inv_spawn; eauto.
  - eapply Inv_add; eauto.
  - eapply Inv_sat; eauto.
  - eapply Inv_output; eauto.
  - eapply Inv_state; eauto.
  - cbn in H. injection H as <-. now apply Inv_relq.
  - eapply Inv_release; eauto.
  - eapply Inv_submit; eauto.
  - eapply Inv_remove; eauto.
  - cbn in H. destruct (pool s); [injection H as <-; now apply Inv_limit|].
    destruct (option_eqb Z.eqb l (spec_limit c s)); [injection H as <-; now apply Inv_limit|].
    destruct (_ && _) in H; [injection H as <-; now apply Inv_limit|discriminate].
  - eapply Inv_merge; eauto.
  - eapply Inv_abs; eauto.
  - cbn in H. injection H as <-. now apply Inv_fold_add_hold.
  - cbn in H. injection H as <-. now apply Inv_with_hold.
  - cbn in H. injection H as <-. now apply Inv_with_hold.
  - cbn in H. injection H as <-. now apply Inv_with_hold.
  - cbn in H. injection H as <-. now apply Inv_with_hold.
  - eapply Inv_restart; eauto.
  - eapply Inv_restore; eauto.
  - cbn in H. destruct (crash_mode s); [injection H as <-; now apply Inv_with_crash|].
    destruct (saved s); [injection H as <-; exact I|discriminate].
  - eapply Inv_spawnhist; eauto.
  - eapply Inv_transient; eauto.
  - eapply Inv_forcesat; eauto.
  - eapply Inv_stateforced; eauto.
  - eapply Inv_manual; eauto.
  - eapply Inv_cmdremove; eauto.
  - eapply Inv_crash; eauto.
  - cbn in H. destruct (crash_mode s); [|discriminate]. injection H as <-.
    apply Inv_with_stop. now apply Inv_with_hold.
  - cbn in H. injection H as <-. now apply Inv_with_stop.
  - cbn in H. injection H as <-. apply Inv_limit. now apply Inv_with_stop.
  - cbn in H. injection H as <-. now apply Inv_with_stop.
  - cbn in H. destruct (stop_task s); [|discriminate]. destruct (out_done s t o_succeeded); [|discriminate].
    injection H as <-. now apply Inv_with_stop.
  - cbn in H. destruct (negb _) in H; [discriminate|].
    destruct m; try (injection H as <-; exact I);
      (destruct (existsb _ _) in H; [discriminate|injection H as <-; exact I]).
  - cbn in H. destruct (negb _) in H; [discriminate|]. destruct (negb _) in H; [discriminate|].
    injection H as <-. exact I.
  - eapply Inv_tick; eauto.
  - cbn in H. repeat (destruct (existsb _ _) in H; [discriminate|]). injection H as <-. now apply Inv_with_stop.
  - cbn in H. injection H as <-. apply Inv_with_done; [exact I|intros k Hk; now right].
  - cbn in H. injection H as <-. now apply Inv_add_hold.
  - cbn in H. injection H as <-. now apply Inv_with_bcast.
  - cbn in H. destruct (Nat.eqb n (bcast s)); [injection H as <-; exact I|discriminate].
  - cbn in H. destruct (crash_mode s); [injection H as <-; now apply Inv_with_bcast|].
    destruct (Nat.eqb n (bcast s)); [injection H as <-; exact I|discriminate].
Qed.

Lemma exec_Inv c tr : forall s s', Inv c s -> exec c s tr = Some s' -> Inv c s'.
Proof.
  induction tr as [|e r IH]; intros s s' I; cbn; [intros [= <-]; exact I|].
  destruct (step c s e) as [s1|] eqn:E; [|discriminate]. intros H.
  eapply IH; [eapply step_Inv; eauto|exact H].
Qed.

Theorem reachable_Inv c tr s : exec c (init_state c) tr = Some s -> Inv c s.
Proof. apply exec_Inv. apply Inv_init. Qed.
