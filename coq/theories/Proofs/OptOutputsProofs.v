(* Proofs/OptOutputsProofs.v — lemmas about Model/OptOutputs.v *)
From Coq Require Import List Bool Arith Lia.
From Cylc Require Import Base.Util Model.BExpr Model.Completion Model.OptOutputs
  Proofs.BExprProofs.
Import ListNotations.

(* ---------- canonical sets keep their elements ---------- *)
Lemma insert_by_In {A} (leb : A -> A -> bool) x y l :
  In x (insert_by leb y l) <-> x = y \/ In x l.
Proof.
  induction l as [|z l IH]; cbn; [intuition|].
  destruct (leb y z); cbn; [intuition|]. rewrite IH. intuition.
Qed.

Lemma sort_by_In {A} (leb : A -> A -> bool) x l : In x (sort_by leb l) <-> In x l.
Proof.
  unfold sort_by. induction l as [|y l IH]; cbn; [tauto|].
  rewrite insert_by_In, IH. intuition.
Qed.

Lemma dedup_sorted_In x l : In x (dedup_sorted l) <-> In x l.
Proof.
  induction l as [|a l IH]; [tauto|].
  destruct l as [|b l']; [tauto|].
  change (dedup_sorted (a :: b :: l'))
    with (if Nat.eqb a b then dedup_sorted (b :: l') else a :: dedup_sorted (b :: l')).
  destruct (Nat.eqb_spec a b) as [->|Hne].
  - rewrite IH. cbn. intuition.
  - cbn [In]. rewrite IH. cbn. intuition.
Qed.

Lemma canon_set_In x l : In x (canon_set l) <-> In x l.
Proof. unfold canon_set, sort_nat. now rewrite dedup_sorted_In, sort_by_In. Qed.

Lemma keys_In e outs x : In x (keys e outs) <-> In x (evars e) \/ In x outs.
Proof. unfold keys. now rewrite canon_set_In, in_app_iff. Qed.

(* ---------- valid expressions ---------- *)
(* every name is an output of the task (or one of the two pre-execution
   outcomes, which the evaluator always binds) *)
Definition valid (e : bexpr) (outs : list nat) : Prop :=
  forall a, In a (vars e) -> pre_exec a = true \/ In a outs.

Lemma goo_env_valid e outs disable o a :
  valid e outs -> In a (vars e) ->
  goo_env outs disable o a = Some (missing_with disable o a).
Proof.
  intros Hv Ha. unfold goo_env, missing_with, alone_missing.
  destruct (is_disabled disable a); [reflexivity|].
  destruct (pre_exec a) eqn:Ep; [reflexivity|].
  destruct (Hv a Ha) as [H|H]; [congruence|].
  apply mem_nat_In in H. rewrite H. reflexivity.
Qed.

Lemma classify_valid e outs disable o :
  valid e outs ->
  classify (Some e) outs disable o =
  if uses e o then Opt (eval (missing_with disable o) e) else Unref.
Proof.
  intros Hv. unfold classify. destruct (uses e o); [|reflexivity].
  rewrite (evalo_total (goo_env outs disable o) (missing_with disable o) e); [reflexivity|].
  intros a Ha. now apply (goo_env_valid e).
Qed.

Lemma missing_with_None o : forall v, missing_with None o v = alone_missing o v.
Proof. reflexivity. Qed.

Lemma eval_missing_None o e : eval (missing_with None o) e = eval (alone_missing o) e.
Proof. apply eval_ext. intros; apply missing_with_None. Qed.

(* ---------- "required" = necessary for completion ---------- *)
(* the expression is false in EVERY state where [o] is missing and the task
   neither expired nor failed to submit *)
Definition necessary (e : bexpr) (o : nat) : Prop :=
  forall s : nat -> bool,
    s o = false -> s EXPIRED = false -> s SUBMIT_FAILED = false -> eval s e = false.

Lemma pre_exec_cases v : pre_exec v = true -> v = EXPIRED \/ v = SUBMIT_FAILED.
Proof.
  unfold pre_exec. rewrite orb_true_iff, !Nat.eqb_eq. tauto.
Qed.

Lemma alone_missing_top o s :
  s o = false -> s EXPIRED = false -> s SUBMIT_FAILED = false -> le_env s (alone_missing o).
Proof.
  intros Ho He Hs a Ha. unfold alone_missing.
  destruct (pre_exec a) eqn:Ep.
  - apply pre_exec_cases in Ep. destruct Ep; subst; congruence.
  - cbn. destruct (Nat.eqb_spec a o); [subst; congruence|reflexivity].
Qed.

Lemma required_iff_necessary e o :
  eval (alone_missing o) e = false <-> necessary e o.
Proof.
  split.
  - intros H s Ho He Hs. eapply eval_mono_false; [|exact H]. now apply alone_missing_top.
  - intros H. apply H; unfold alone_missing; cbn.
    + rewrite Nat.eqb_refl. now rewrite andb_false_r.
    + reflexivity.
    + reflexivity.
Qed.

(* the three classes, for a valid expression and no disabled output *)
Lemma classification e outs o :
  valid e outs ->
  (classify (Some e) outs None o = Opt false <-> In o (vars e) /\ necessary e o) /\
  (classify (Some e) outs None o = Opt true <-> In o (vars e) /\ ~ necessary e o) /\
  (classify (Some e) outs None o = Unref <-> ~ In o (vars e)).
Proof.
  intros Hv. rewrite (classify_valid _ _ _ _ Hv), eval_missing_None.
  pose proof (uses_In e o) as Hu. pose proof (required_iff_necessary e o) as Hn.
  destruct (uses e o).
  - assert (Hin : In o (vars e)) by now apply Hu.
    destruct (eval (alone_missing o) e).
    + split; [|split].
      * split; [discriminate|]. intros [_ H]. apply Hn in H. discriminate.
      * split; [|reflexivity]. intros _. split; [exact Hin|].
        intros H. apply Hn in H. discriminate.
      * split; [discriminate|]. intros H. contradiction.
    + split; [|split].
      * split; [|reflexivity]. intros _. split; [exact Hin|]. now apply Hn.
      * split; [discriminate|]. intros [_ H]. exfalso. apply H. now apply Hn.
      * split; [discriminate|]. intros H. contradiction.
  - assert (Hnin : ~ In o (vars e)) by (intros H; apply Hu in H; discriminate).
    split; [|split].
    + split; [discriminate|]. intros [H _]. contradiction.
    + split; [discriminate|]. intros [H _]. contradiction.
    + split; [|reflexivity]. intros _. exact Hnin.
Qed.

(* ---------- the returned dict ---------- *)
Lemma assoc_map_key {B} (f : nat -> B) l o :
  In o l -> assoc Nat.eqb o (map (fun k => (k, f k)) l) = Some (f o).
Proof.
  induction l as [|k l IH]; cbn; [tauto|].
  destruct (Nat.eqb_spec o k) as [->|Hne]; [reflexivity|].
  intros [E|H]; [congruence|auto].
Qed.

Lemma assoc_map_nokey {B} (f : nat -> B) l o :
  ~ In o l -> assoc Nat.eqb o (map (fun k => (k, f k)) l) = None.
Proof.
  induction l as [|k l IH]; cbn; [reflexivity|].
  destruct (Nat.eqb_spec o k) as [->|Hne]; [tauto|]. intros H. apply IH. tauto.
Qed.

Lemma classify_valid_not_err e outs disable o :
  valid e outs -> cls_eqb (classify (Some e) outs disable o) NameErr = false.
Proof.
  intros Hv. rewrite (classify_valid _ _ _ _ Hv). destruct (uses e o); reflexivity.
Qed.

Lemma goo_valid_some e outs disable :
  valid e outs ->
  get_optional_outputs (Some e) outs disable =
  Some (map (fun o => (o, classify (Some e) outs disable o)) (keys (Some e) outs)).
Proof.
  intros Hv. unfold get_optional_outputs.
  set (r := map _ _).
  destruct (existsb (fun p => cls_eqb (snd p) NameErr) r) eqn:E; [|reflexivity].
  apply existsb_exists in E. destruct E as [[k c] [Hin Hc]].
  unfold r in Hin. apply in_map_iff in Hin. destruct Hin as [o [[= <- <-] _]].
  change (cls_eqb (classify (Some e) outs disable o) NameErr = true) in Hc.
  rewrite classify_valid_not_err in Hc by assumption. discriminate.
Qed.

Lemma goo_lookup e outs disable r o :
  get_optional_outputs e outs disable = Some r ->
  assoc Nat.eqb o r =
  if mem Nat.eqb o (evars e ++ outs) then Some (classify e outs disable o) else None.
Proof.
  unfold get_optional_outputs.
  destruct (existsb _ _); [discriminate|]. intros [= <-].
  destruct (mem Nat.eqb o (evars e ++ outs)) eqn:E.
  - apply mem_nat_In in E. apply assoc_map_key. unfold keys. now apply canon_set_In.
  - apply mem_nat_false in E. apply assoc_map_nokey. unfold keys. now rewrite canon_set_In.
Qed.

(* ---------- validation table ---------- *)
Lemma pair_ok_table v g e : pair_ok v g e = table (pre_exec v) g e.
Proof. destruct g as [[|]|], e as [[|]|]; reflexivity. Qed.

Lemma check_completion_accept t e :
  check_completion t e = Accept <->
  exists r, get_optional_outputs (Some e) (map fst t) None = Some r /\
            forall v, In v (keys (Some e) (map fst t)) ->
                      table (pre_exec v) (gopt t v) (eopt (lookup_cls r v)) = true.
Proof.
  unfold check_completion.
  destruct (get_optional_outputs (Some e) (map fst t) None) as [r|]; [|split; [discriminate|intros [r [H _]]; discriminate]].
  destruct (forallb _ _) eqn:E.
  - split; [|reflexivity]. intros _. exists r. split; [reflexivity|].
    rewrite forallb_forall in E. intros v Hv. rewrite <- pair_ok_table. now apply E.
  - split; [discriminate|]. intros [r' [[= <-] H]].
    assert (forallb (fun v => pair_ok v (gopt t v) (eopt (lookup_cls r v))) (keys (Some e) (map fst t)) = true).
    { apply forallb_forall. intros v Hv. rewrite pair_ok_table. now apply H. }
    congruence.
Qed.

(* accepted => what the graph declares holds of the expression *)
Lemma accept_sound t e o :
  valid e (map fst t) ->
  check_completion t e = Accept ->
  In o (map fst t) -> pre_exec o = false ->
  (gopt t o = Some false -> In o (vars e) /\ necessary e o) /\
  (gopt t o = Some true -> In o (vars e) -> ~ necessary e o).
Proof.
  intros Hv Hacc Ho Hpre. apply check_completion_accept in Hacc.
  destruct Hacc as [r [Hr Hall]].
  assert (Hk : In o (keys (Some e) (map fst t))) by (apply keys_In; now right).
  specialize (Hall o Hk). rewrite Hpre in Hall.
  unfold lookup_cls in Hall. rewrite (goo_lookup _ _ _ _ o Hr) in Hall.
  assert (Hm : mem Nat.eqb o (evars (Some e) ++ map fst t) = true)
    by (apply mem_nat_In, in_or_app; now right).
  rewrite Hm in Hall.
  destruct (classification e (map fst t) o Hv) as (Hreq & Hopt & Hun).
  destruct (classify (Some e) (map fst t) None o) as [| |[|]] eqn:Ec; cbn in Hall.
  - split; intros Hg; rewrite Hg in Hall; cbn in Hall; try discriminate.
    intros Hin. exfalso. rewrite classify_valid in Ec by assumption.
    apply uses_In in Hin. rewrite Hin in Ec. discriminate.
  - split; intros Hg; rewrite Hg in Hall; cbn in Hall; try discriminate.
    intros Hin. exfalso. apply (proj1 Hun eq_refl Hin).
  - split; intros Hg; rewrite Hg in Hall; cbn in Hall; try discriminate.
    intros _. apply (proj1 Hopt eq_refl).
  - split; intros Hg; rewrite Hg in Hall; cbn in Hall; try discriminate.
    apply (proj1 Hreq eq_refl).
Qed.

(* ---------- skip mode ---------- *)
Lemma missing_with_le d o : le_env (missing_with d o) (alone_missing o).
Proof. intros a. unfold missing_with. rewrite andb_true_iff. tauto. Qed.

(* disabling an output can only make more outputs required *)
Lemma required_mono_disable e outs d o :
  valid e outs ->
  classify (Some e) outs None o = Opt false ->
  classify (Some e) outs d o = Opt false.
Proof.
  intros Hv. rewrite !classify_valid by assumption.
  destruct (uses e o); [|discriminate]. intros [= H]. f_equal.
  rewrite eval_missing_None in H.
  eapply eval_mono_false; [apply missing_with_le|exact H].
Qed.

Lemma iter_required_In e outs d req o :
  iter_required e outs d = Some req ->
  (In o req <-> In o outs /\ classify e outs d o = Opt false).
Proof.
  unfold iter_required. destruct (get_optional_outputs e outs d) as [r|] eqn:Er; [|discriminate].
  intros [= <-]. unfold get_optional_outputs in Er.
  destruct (existsb _ _); [discriminate|]. injection Er as <-.
  rewrite in_map_iff. split.
  - intros [[k c] [Hk Hin]]. cbn in Hk. subst k. apply filter_In in Hin. destruct Hin as [Hin Hf].
    apply in_map_iff in Hin. destruct Hin as [o' [Heq _]]. injection Heq as H1 H2. subst o' c.
    cbn [fst snd] in Hf.
    apply andb_true_iff in Hf. destruct Hf as [Hc Hm]. apply mem_nat_In in Hm.
    split; [exact Hm|]. destruct (classify e outs d o) as [| |[|]]; try discriminate. reflexivity.
  - intros [Ho Hc]. exists (o, classify e outs d o). split; [reflexivity|].
    apply filter_In. split.
    + apply in_map_iff. exists o. split; [reflexivity|]. apply keys_In. now right.
    + cbn. rewrite Hc. cbn. now apply mem_nat_In.
Qed.

Lemma emit_failed_false e outs conf :
  emit_failed e outs conf = Some false -> ~ In FAILED conf.
Proof.
  unfold emit_failed. destruct (mem Nat.eqb FAILED conf) eqn:E; [discriminate|].
  intros _. now apply mem_nat_false.
Qed.

Lemma emit_failed_true e outs conf :
  emit_failed e outs conf = Some true -> In FAILED conf \/ conf = [].
Proof.
  unfold emit_failed. destruct (mem Nat.eqb FAILED conf) eqn:E.
  - intros _. left. now apply mem_nat_In.
  - destruct conf; [auto|discriminate].
Qed.

Lemma emit_failed_default e outs ef :
  emit_failed e outs [] = Some ef ->
  exists req0, iter_required e outs None = Some req0 /\ (ef = true <-> In FAILED req0).
Proof.
  unfold emit_failed. cbn.
  destruct (iter_required e outs None) as [req0|]; [|discriminate].
  intros [= <-]. exists req0. split; [reflexivity|]. apply mem_nat_In.
Qed.

Lemma skip_In e outs conf l x :
  skip_outputs e outs conf = Some l ->
  exists ef req,
    emit_failed e outs conf = Some ef /\
    iter_required e outs (Some (skip_disable ef)) = Some req /\
    (In x l <->
       x = SUBMITTED \/ x = STARTED
       \/ (In x req /\ x <> SUCCEEDED /\ x <> FAILED /\ (conf = [] \/ In x conf))
       \/ (In x outs /\ In x conf)
       \/ x = (if ef then FAILED else SUCCEEDED)).
Proof.
  unfold skip_outputs.
  destruct (emit_failed e outs conf) as [ef|] eqn:Eef; [|discriminate].
  destruct (iter_required e outs (Some (skip_disable ef))) as [req|] eqn:Ereq; [|discriminate].
  intros [= <-]. exists ef, req. split; [reflexivity|]. split; [exact Ereq|].
  rewrite canon_set_In. cbn [app In]. rewrite !in_app_iff, !filter_In. cbn [In].
  rewrite !andb_true_iff, !negb_true_iff, orb_true_iff, !Nat.eqb_neq, !mem_nat_In.
  assert (Hnil : is_nil conf = true <-> conf = []) by (destruct conf; cbn; split; congruence).
  rewrite Hnil. intuition.
Qed.

Lemma skip_exactly_one e outs conf l :
  skip_outputs e outs conf = Some l ->
  ~ (In SUCCEEDED conf /\ In FAILED conf) ->
  exists ef, emit_failed e outs conf = Some ef /\
    if ef then In FAILED l /\ ~ In SUCCEEDED l
    else In SUCCEEDED l /\ ~ In FAILED l.
Proof.
  intros Hs Hnb.
  destruct (skip_In e outs conf l FAILED Hs) as [ef [req [Hef [_ HF]]]].
  destruct (skip_In e outs conf l SUCCEEDED Hs) as [ef' [req' [Hef' [_ HS]]]].
  rewrite Hef in Hef'. injection Hef' as <-.
  exists ef. split; [exact Hef|]. destruct ef.
  - split.
    + apply HF. tauto.
    + rewrite HS. pose proof (emit_failed_true _ _ _ Hef) as Ht.
      unfold SUCCEEDED, SUBMITTED, STARTED, FAILED in *.
      intros [H|[H|[H|[[_ H]|H]]]]; try discriminate; try tauto.
      destruct Ht as [Ht| ->]; [tauto|destruct H].
  - pose proof (emit_failed_false _ _ _ Hef) as Hf. split.
    + apply HS. tauto.
    + rewrite HF. unfold SUCCEEDED, SUBMITTED, STARTED, FAILED in *.
      intros [H|[H|[H|[H|H]]]]; try discriminate; tauto.
Qed.

(* every required output is generated by default skip mode, unless succeeded
   AND failed are both required (then "exactly one of succeeded/failed" makes
   that impossible for any output set) *)
Lemma skip_default_contains_required e outs l o :
  valid e outs ->
  skip_outputs (Some e) outs [] = Some l ->
  ~ (In SUCCEEDED outs /\ classify (Some e) outs None SUCCEEDED = Opt false /\
     In FAILED outs /\ classify (Some e) outs None FAILED = Opt false) ->
  In o outs -> classify (Some e) outs None o = Opt false -> In o l.
Proof.
  intros Hv Hs Hboth Ho Hc.
  destruct (skip_In (Some e) outs [] l o Hs) as [ef [req [Hef [Hreq HI]]]].
  destruct (emit_failed_default _ _ _ Hef) as [req0 [Hreq0 Hef0]].
  pose proof (iter_required_In _ _ _ _ FAILED Hreq0) as HF0.
  apply HI.
  destruct (Nat.eq_dec o FAILED) as [->|Hnf].
  { right; right; right; right.
    assert (ef = true) by (apply Hef0, HF0; auto). subst ef. reflexivity. }
  destruct (Nat.eq_dec o SUCCEEDED) as [->|Hns].
  { right; right; right; right. destruct ef; [|reflexivity].
    exfalso. apply Hboth. assert (In FAILED req0) by now apply Hef0.
    apply HF0 in H. tauto. }
  right; right; left. repeat split; auto.
  apply (iter_required_In _ _ _ _ o Hreq). split; [exact Ho|].
  now apply required_mono_disable.
Qed.

Lemma skip_valid_some e outs conf :
  valid e outs -> exists l, skip_outputs (Some e) outs conf = Some l.
Proof.
  intros Hv. unfold skip_outputs.
  assert (He : exists ef, emit_failed (Some e) outs conf = Some ef).
  { unfold emit_failed, iter_required. rewrite (goo_valid_some _ _ _ Hv).
    destruct (mem Nat.eqb FAILED conf); [eauto|]. destruct (is_nil conf); eauto. }
  destruct He as [ef ->]. unfold iter_required. rewrite (goo_valid_some _ _ _ Hv). eauto.
Qed.

(* ---------- skip mode on the DEFAULT expression: graph-required outputs ---------- *)
From Cylc Require Import Proofs.CompletionProofs.

Lemma required_in_parts0 t o :
  In o (required t) -> exists c, parts0 t = [c] /\ In o (vars c).
Proof.
  intros Ho. unfold parts0.
  destruct (conj_list (map BVar (required t))) as [c|] eqn:E.
  - exists c. split; [reflexivity|]. apply (vars_conj_list _ _ _ E).
    exists (BVar o). split; [now apply in_map|now left].
  - destruct (required t); [destruct Ho|discriminate].
Qed.

Lemma required_in_default_vars t e o :
  default_expr t = Some e -> In o (required t) -> In o (vars e).
Proof.
  intros He Ho. unfold default_expr in He. apply (vars_disj_list _ _ _ He).
  destruct (required_in_parts0 t o Ho) as [c [Hc Hv]].
  rewrite default_parts_eq. unfold parts1. rewrite Hc.
  destruct (fail_tolerated t).
  - eexists. split; [apply in_or_app; left; now left|].
    cbn. rewrite <- app_assoc. apply in_or_app. now left.
  - exists c. split; [apply in_or_app; left; now left|exact Hv].
Qed.

Lemma default_expr_valid t e :
  In SUCCEEDED (map fst t) -> In FAILED (map fst t) ->
  default_expr t = Some e -> valid e (map fst t).
Proof.
  intros H4 H5 He a Ha. unfold default_expr in He.
  apply (vars_disj_list _ _ _ He) in Ha. destruct Ha as [p [Hp Ha]].
  destruct (default_parts_vars t p a Hp Ha) as [H|H].
  - right. unfold required in H. apply in_map_iff in H. destruct H as [q [<- Hq]].
    apply filter_In in Hq. apply in_map. tauto.
  - cbn in H. destruct H as [<-|[<-|[<-|[<-|[]]]]]; auto.
Qed.

Lemma skip_default_graph_required t e l o :
  In SUCCEEDED (map fst t) -> In FAILED (map fst t) ->
  default_expr t = Some e ->
  (* not the degenerate flag combination "failure tolerated, yet `failed`
     necessary": there `failed` alone completes the task *)
  (fail_tolerated t = true -> classify (Some e) (map fst t) None FAILED <> Opt false) ->
  skip_outputs (Some e) (map fst t) [] = Some l ->
  In o (required t) -> o <> SUCCEEDED -> o <> FAILED -> In o l.
Proof.
  intros H4 H5 He Hdeg Hs Ho Hns Hnf.
  pose proof (default_expr_valid t e H4 H5 He) as Hv.
  destruct (skip_In (Some e) (map fst t) [] l o Hs) as [ef [req [Hef [Hreq HI]]]].
  apply HI. right; right; left. repeat split; auto.
  apply (iter_required_In _ _ _ _ o Hreq).
  assert (Hout : In o (map fst t)).
  { unfold required in Ho. apply in_map_iff in Ho. destruct Ho as [q [<- Hq]].
    apply filter_In in Hq. apply in_map. tauto. }
  split; [exact Hout|].
  rewrite (classify_valid _ _ _ _ Hv).
  assert (Hu : uses e o = true) by (apply uses_In; eapply required_in_default_vars; eauto).
  rewrite Hu. f_equal.
  assert (Ee : completion_expr t None = e) by (unfold completion_expr; now rewrite He).
  rewrite <- Ee, default_expr_semantics. unfold spec_complete.
  set (s := missing_with (Some (skip_disable ef)) o).
  assert (Hso : s o = false).
  { unfold s, missing_with, alone_missing. rewrite Nat.eqb_refl. cbn. now rewrite !andb_false_r. }
  assert (Hss : s SUBMIT_FAILED = false) by (destruct ef; reflexivity).
  assert (Hse : s EXPIRED = false) by (destruct ef; reflexivity).
  assert (Hreq' : forallb s (required t) = false).
  { destruct (forallb s (required t)) eqn:E; [|reflexivity].
    rewrite forallb_forall in E. rewrite (E o Ho) in Hso. discriminate. }
  assert (Hne : nonempty (required t) = true) by (destruct (required t); [destruct Ho|reflexivity]).
  rewrite Hreq', Hne, Hss, Hse. rewrite orb_true_r. cbn [negb].
  rewrite !andb_false_r, !orb_false_r.
  destruct (fail_tolerated t) eqn:Eft; [|reflexivity].
  (* failure tolerated: then `failed` is not necessary, so it is the disabled output *)
  destruct ef.
  - exfalso. apply (Hdeg eq_refl).
    destruct (emit_failed_default _ _ _ Hef) as [req0 [Hreq0 Hef0]].
    apply (iter_required_In _ _ _ _ FAILED Hreq0). now apply Hef0.
  - assert (Hsf : s FAILED = false) by reflexivity. rewrite Hsf. cbn. reflexivity.
Qed.
