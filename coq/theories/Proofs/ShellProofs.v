(* Proofs/ShellProofs.v — lemmas about Model/Shell.v *)
From Coq Require Import List ZArith Bool Lia ZifyBool.
From Cylc Require Import Base.Util Model.Shell.
Import ListNotations.
Open Scope Z_scope.

(* ---------- vocabulary ---------- *)
(* none of the characters that are special inside double quotes *)
Definition plain_char (c : Z) : bool :=
  negb ((c =? c_dollar) || (c =? c_bt) || (c =? c_bs) || (c =? c_dq)).
Definition plain_str (v : str) : bool := forallb plain_char v.
Definition tilde_start (v : str) : bool :=
  match v with c :: _ => c =? c_tilde | [] => false end.
(* a character that ends the tilde run of _get_variable_value_definition *)
Definition stop_char (c : Z) : bool := (c =? c_slash) || is_space c.
Definition valid_name (x : str) : bool :=
  match x with c :: r => name_start c && forallb name_char r | [] => false end.

(* ---------- res plumbing ---------- *)
Lemma rmap_rmap {A B C} (f : A -> B) (g : B -> C) r : rmap g (rmap f r) = rmap (fun a => g (f a)) r.
Proof. destruct r; reflexivity. Qed.

(* ---------- double quotes: plain text is kept ---------- *)
Lemma dq_plain_cons e c s :
  plain_char c = true -> dq e Plain (c :: s) = rmap (cons c) (dq e Plain s).
Proof.
  unfold plain_char. intros H. cbn [dq].
  destruct (c =? c_bs) eqn:E1; [cbn in H; rewrite ?orb_true_r in H; discriminate|].
  destruct (c =? c_dollar) eqn:E2; [discriminate|].
  destruct (c =? c_bt) eqn:E3; [discriminate|].
  destruct (c =? c_dq) eqn:E4; [cbn in H; discriminate|]. reflexivity.
Qed.

Lemma dq_plain_app e a s :
  plain_str a = true -> dq e Plain (a ++ s) = rmap (app a) (dq e Plain s).
Proof.
  induction a as [|c a IH]; cbn [plain_str forallb app]; intros H.
  - destruct (dq e Plain s); reflexivity.
  - apply andb_true_iff in H. destruct H as [Hc Ha].
    rewrite dq_plain_cons by exact Hc. rewrite IH by exact Ha.
    rewrite rmap_rmap. reflexivity.
Qed.

Lemma dq_plain e v : plain_str v = true -> dq e Plain v = Ok v.
Proof.
  intros H. rewrite <- (app_nil_r v) at 1. rewrite dq_plain_app by exact H.
  cbn. now rewrite app_nil_r.
Qed.

(* ---------- ${name} ---------- *)
Lemma name_char_not_rbrace c : name_char c = true -> (c =? c_rbrace) = false.
Proof. unfold name_char, is_alpha_us, is_digit, c_rbrace. lia. Qed.

Lemma name_start_char c : name_start c = true -> name_char c = true.
Proof. unfold name_start, name_char. intros ->. reflexivity. Qed.

Lemma dq_brace_rest e r : forall acc s,
  acc <> [] -> forallb name_char r = true ->
  dq e (Brace acc) (r ++ c_rbrace :: s) = rmap (app (lookup e (acc ++ r))) (dq e Plain s).
Proof.
  induction r as [|c r IH]; intros acc s Hacc Hr.
  - cbn [app dq]. rewrite Z.eqb_refl. rewrite app_nil_r. destruct acc; [congruence|reflexivity].
  - cbn [forallb] in Hr. apply andb_true_iff in Hr. destruct Hr as [Hc Hr].
    cbn [app dq]. rewrite (name_char_not_rbrace c Hc).
    destruct acc as [|a0 acc0]; [congruence|]. rewrite Hc.
    rewrite IH; [|destruct acc0; discriminate|exact Hr].
    rewrite <- app_assoc. reflexivity.
Qed.

Lemma dq_brace_ref e x s :
  valid_name x = true ->
  dq e Plain (c_dollar :: c_lbrace :: x ++ c_rbrace :: s) = rmap (app (lookup e x)) (dq e Plain s).
Proof.
  destruct x as [|c r]; [discriminate|]. cbn [valid_name]. intros H.
  apply andb_true_iff in H. destruct H as [Hc Hr].
  cbn [dq app].
  change (c_dollar =? c_bs) with false. change (c_dollar =? c_dollar) with true. cbv iota.
  assert (name_start c_lbrace = false) as -> by reflexivity.
  change (c_lbrace =? c_lbrace) with true. cbv iota.
  rewrite (name_char_not_rbrace c (name_start_char c Hc)). rewrite Hc.
  now rewrite (dq_brace_rest e r [c] s) by (try discriminate; exact Hr).
Qed.

(* ---------- the writer: which shape is chosen ---------- *)
Lemma definition_not_tilde v : tilde_start v = false -> definition v = WQuoted v.
Proof. destruct v as [|c r]; [reflexivity|]. cbn. intros ->. reflexivity. Qed.

Lemma split_run_nostop run : forall rest,
  forallb (fun c => negb (stop_char c)) run = true ->
  split_run (run ++ rest) =
  (let '(r2, st) := split_run rest in (run ++ r2, st)).
Proof.
  induction run as [|c run IH]; intros rest H; cbn [app].
  - destruct (split_run rest). reflexivity.
  - cbn [forallb] in H. apply andb_true_iff in H. destruct H as [Hc Hr].
    cbn [split_run]. unfold stop_char in Hc. apply negb_true_iff in Hc. rewrite Hc.
    rewrite IH by exact Hr. destruct (split_run rest). reflexivity.
Qed.

Lemma login_char_nostop c : login_char c = true -> negb (stop_char c) = true.
Proof.
  unfold login_char, name_char, is_alpha_us, is_digit, stop_char, is_space, c_slash. lia.
Qed.

Lemma safe_login_nostop run :
  safe_login run = true -> forallb (fun c => negb (stop_char c)) run = true.
Proof.
  destruct run as [|c r]; [discriminate|]. cbn [safe_login forallb]. intros H.
  apply andb_true_iff in H. destruct H as [Hc Hr]. apply andb_true_iff. split.
  - apply login_char_nostop. unfold login_char. rewrite (name_start_char c Hc). reflexivity.
  - revert Hr. induction r as [|d r IH]; [reflexivity|]. cbn [forallb]. intros H.
    apply andb_true_iff in H. destruct H as [Hd Hr]. rewrite (login_char_nostop d Hd). cbn. auto.
Qed.

Lemma definition_tilde_slash run tail :
  forallb (fun c => negb (stop_char c)) run = true -> has_nl tail = false ->
  definition (c_tilde :: run ++ c_slash :: tail) = WTildeSlash run tail.
Proof.
  intros Hr Hn. cbn [definition]. rewrite Z.eqb_refl.
  rewrite split_run_nostop by exact Hr. cbn [split_run]. rewrite Z.eqb_refl. cbn [orb].
  rewrite app_nil_r. rewrite Z.eqb_refl. rewrite Hn. reflexivity.
Qed.

Lemma definition_tilde_only run :
  forallb (fun c => negb (stop_char c)) run = true ->
  definition (c_tilde :: run) = WTildeOnly run false.
Proof.
  intros Hr. cbn [definition]. rewrite Z.eqb_refl.
  rewrite <- (app_nil_r run) at 1. rewrite split_run_nostop by exact Hr. cbn.
  now rewrite app_nil_r.
Qed.

Lemma definition_tilde_space run d rest :
  forallb (fun c => negb (stop_char c)) run = true -> is_space d = true -> rest <> [] ->
  definition (c_tilde :: run ++ d :: rest) = WQuoted (c_tilde :: run ++ d :: rest).
Proof.
  intros Hr Hd Hne. cbn [definition]. rewrite Z.eqb_refl.
  rewrite split_run_nostop by exact Hr. cbn [split_run]. rewrite Hd, orb_true_r.
  rewrite app_nil_r.
  assert ((d =? c_slash) = false) as -> by (unfold is_space, c_slash in *; lia).
  destruct rest; [congruence|reflexivity].
Qed.

(* ---------- evaluation of the shapes ---------- *)
Lemma eval_literal e users v :
  plain_str v = true -> tilde_start v = false ->
  definition v = WQuoted v /\ eval_word e users (definition v) = Ok v.
Proof.
  intros Hp Ht. rewrite (definition_not_tilde v Ht). split; [reflexivity|].
  cbn. now apply dq_plain.
Qed.

Definition home_of (users : list (str * str)) (run : str) : str :=
  match assoc str_eqb run users with Some h => h | None => c_tilde :: run end.

Lemma tilde_expand_login e users run :
  safe_login run = true -> tilde_expand e users run = Ok (home_of users run).
Proof. unfold tilde_expand, home_of. destruct run; [discriminate|]. intros ->. reflexivity. Qed.

Lemma tilde_expand_home e users h :
  assoc str_eqb s_HOME e = Some h -> tilde_expand e users [] = Ok h.
Proof. unfold tilde_expand. intros ->. reflexivity. Qed.

(* ---------- sequential evaluation ---------- *)
Lemma run_assignments_app e users a1 a2 :
  run_assignments e users (a1 ++ a2) =
  rbind (run_assignments e users a1) (fun e' => run_assignments e' users a2).
Proof.
  revert e; induction a1 as [|[n w] a1 IH]; intros e; cbn; [reflexivity|].
  destruct (eval_word e users w); [apply IH|reflexivity].
Qed.

Lemma run_section_app e users c1 c2 :
  run_section e users (c1 ++ c2) =
  rbind (run_section e users c1) (fun e' => run_section e' users c2).
Proof. unfold run_section, assignments. rewrite map_app. apply run_assignments_app. Qed.

Lemma str_eqb_eq a b : str_eqb a b = true <-> a = b.
Proof. apply list_eqb_spec. intros x y. apply Z.eqb_eq. Qed.

Lemma lookup_update_same e n v : lookup (update e n v) n = v.
Proof.
  unfold lookup, update. cbn. assert (str_eqb n n = true) as -> by (apply str_eqb_eq; reflexivity).
  reflexivity.
Qed.

Lemma lookup_update_other e n v x : x <> n -> lookup (update e n v) x = lookup e x.
Proof.
  intros H. unfold lookup, update. cbn. destruct (str_eqb x n) eqn:E; [|reflexivity].
  apply str_eqb_eq in E. congruence.
Qed.

Lemma run_assignments_keeps e users a : forall e' x,
  run_assignments e users a = Ok e' -> ~ In x (map fst a) -> lookup e' x = lookup e x.
Proof.
  revert e; induction a as [|[n w] a IH]; intros e e' x; cbn.
  - intros [= <-] _. reflexivity.
  - destruct (eval_word e users w) as [v|]; [|discriminate]. intros H Hx.
    rewrite (IH _ _ _ H) by (intros Hin; apply Hx; now right).
    apply lookup_update_other. intros ->. apply Hx. now left.
Qed.

Lemma later_refers_earlier e users pre mid x vx y a b e2 :
  plain_str vx = true -> tilde_start vx = false ->
  plain_str a = true -> tilde_start a = false -> plain_str b = true ->
  valid_name x = true ->
  ~ In x (map fst mid) ->
  run_section e users (pre ++ (x, vx) :: mid) = Ok e2 ->
  run_section e users
    (pre ++ (x, vx) :: mid ++ [(y, a ++ c_dollar :: c_lbrace :: x ++ c_rbrace :: b)]) =
  Ok (update e2 y (a ++ vx ++ b)).
Proof.
  intros Hvx Htx Ha Hta Hb Hx Hmid Hrun.
  replace (pre ++ (x, vx) :: mid ++ [(y, a ++ c_dollar :: c_lbrace :: x ++ c_rbrace :: b)])
    with ((pre ++ (x, vx) :: mid) ++ [(y, a ++ c_dollar :: c_lbrace :: x ++ c_rbrace :: b)])
    by (rewrite <- app_assoc; reflexivity).
  rewrite run_section_app, Hrun. cbn [rbind].
  (* the value x had when y is evaluated *)
  assert (Hlx : lookup e2 x = vx).
  { rewrite run_section_app in Hrun.
    destruct (run_section e users pre) as [e1|] eqn:E1; [|discriminate]. cbn [rbind] in Hrun.
    unfold run_section, assignments in Hrun. cbn [map run_assignments fst snd] in Hrun.
    destruct (eval_literal e1 users vx Hvx Htx) as [_ Hev]. rewrite Hev in Hrun.
    rewrite (run_assignments_keeps _ _ _ _ x Hrun).
    - apply lookup_update_same.
    - rewrite map_map. cbn [fst]. exact Hmid. }
  unfold run_section, assignments. cbn [map run_assignments fst snd].
  assert (Hd : definition (a ++ c_dollar :: c_lbrace :: x ++ c_rbrace :: b) =
               WQuoted (a ++ c_dollar :: c_lbrace :: x ++ c_rbrace :: b)).
  { apply definition_not_tilde. destruct a as [|c a']; [reflexivity|exact Hta]. }
  rewrite Hd. cbn [eval_word].
  rewrite dq_plain_app by exact Ha. rewrite dq_brace_ref by exact Hx.
  rewrite (dq_plain e2 b Hb). cbn [rmap]. rewrite Hlx. reflexivity.
Qed.
