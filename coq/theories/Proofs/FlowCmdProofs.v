(* Proofs/FlowCmdProofs.v — lemmas about Model/FlowCmd.v (C08, `cylc set --flow --out`) *)
From Coq Require Import List Bool ZArith Lia.
From Cylc Require Import Base.Util Model.Flow Model.FlowCmd Proofs.FlowProofs.
Import ListNotations.
Open Scope Z_scope.

Lemma merged_In mine other x : In x (merged mine other) <-> In x mine \/ In x other.
Proof. apply flow_union_In. Qed.

(* the target: old ∪ F for a pooled task (unless --flow=none is ignored), F for an inactive one *)
Lemma target_flows_pooled old c f t' x :
  target_flows true old c f = Some t' -> (In x t' <-> In x old \/ In x f).
Proof.
  unfold target_flows. destruct (is_cnone c && negb (is_nil old)); [discriminate|].
  intros [= <-]. apply merged_In.
Qed.

Lemma target_flows_inactive old c f t' x :
  target_flows false old c f = Some t' -> (In x t' <-> In x f).
Proof. unfold target_flows. intros [= <-]. apply In_zsorted. Qed.

Lemma target_flows_skipped old c f :
  target_flows true old c f = None <-> c = CNone /\ old <> [].
Proof.
  unfold target_flows. destruct c as [| |l]; destruct old as [|z r]; cbn; split; intros H;
    try discriminate; try reflexivity;
    try (destruct H as [H1 H2]; first [discriminate H1 | exfalso; apply H2; reflexivity]).
  split; [reflexivity|discriminate].
Qed.

(* children: handed exactly the target's new flows; afterwards they belong to the union *)
Lemma child_effect_spec t' before arg after :
  child_effect t' before = (arg, after) ->
  arg = t' /\
  (forall x, In x t' -> In x after) /\
  (forall x, In x after <-> In x t' \/ exists b, before = Some b /\ In x b).
Proof.
  unfold child_effect. destruct before as [b|]; intros [= <- <-]; split; auto; split.
  - intros x Hx. apply merged_In. auto.
  - intros x. rewrite merged_In. split.
    + intros [H|H]; [right; eauto|auto].
    + intros [H|[b' [[= <-] H]]]; auto.
  - auto.
  - intros x. split; [auto|]. intros [H|[b' [E _]]]; [exact H|discriminate].
Qed.

(* what F is *)
Lemma get_flow_given_res st n : snd (get_flow st (Some n)) = RNum n.
Proof. unfold get_flow. destruct (zmem n (f_flows st)); reflexivity. Qed.

Lemma get_all_res : forall l st acc st' res, get_all st l acc = (st', res) -> res = acc ++ l.
Proof.
  induction l as [|n r IH]; intros st acc st' res; cbn [get_all].
  - intros [= _ <-]. now rewrite app_nil_r.
  - pose proof (get_flow_given_res st n) as H. destruct (get_flow st (Some n)) as [st1 r1]. cbn in H. subst r1.
    intros E. apply IH in E. rewrite E, <- app_assoc. reflexivity.
Qed.

Lemma resolve_none st pool fb st' f : resolve st CNone pool fb = (st', Some f) -> f = [] /\ st' = st.
Proof. unfold resolve. cbn. intros [= <- <-]. auto. Qed.

Lemma resolve_nums st l pool fb st' f x :
  l <> [] -> resolve st (CNums l) pool fb = (st', Some f) -> (In x f <-> In x l).
Proof.
  intros Hl. unfold resolve. cbn [fstep]. destruct (get_all st l []) as [st1 res] eqn:E.
  apply get_all_res in E. cbn in E. subst res. cbn [is_cnone negb andb].
  destruct (is_nil (zsorted l)) eqn:En.
  - exfalso. destruct l as [|y r]; [congruence|].
    assert (In y (zsorted (y :: r))) by (apply In_zsorted; now left).
    destruct (zsorted (y :: r)); [destruct H|discriminate].
  - intros [= _ <-]. apply In_zsorted.
Qed.

Lemma resolve_default st pool fb st' f :
  resolve st (CNums []) pool fb = (st', Some f) -> f = active_flows pool fb /\ st' = st.
Proof. unfold resolve. cbn. intros [= <- <-]. auto. Qed.

Lemma active_flows_spec pool fb x :
  In x (active_flows pool fb) <->
  (exists fl, In fl pool /\ In x fl) \/ ((forall fl, In fl pool -> fl = []) /\ In x fb).
Proof.
  unfold active_flows. destruct (zsorted (concat pool)) as [|y r] eqn:E; cbn [is_nil].
  - assert (Hall : forall fl, In fl pool -> fl = []).
    { intros fl Hfl. destruct fl as [|z t]; [reflexivity|].
      assert (In z (zsorted (concat pool))) by (apply In_zsorted, in_concat; exists (z :: t); split; [auto|now left]).
      rewrite E in H. destruct H. }
    split; [intros H; right; auto|]. intros [[fl [Hfl Hx]]|[_ H]]; [|exact H].
    rewrite (Hall fl Hfl) in Hx. destruct Hx.
  - rewrite <- E, In_zsorted, in_concat. split.
    + intros [fl [H1 H2]]. left. eauto.
    + intros [[fl [H1 H2]]|[Hall _]]; [eauto|].
      exfalso. assert (In y (zsorted (concat pool))) by (rewrite E; now left).
      apply In_zsorted, in_concat in H. destruct H as [fl [H1 H2]]. rewrite (Hall fl H1) in H2. destruct H2.
Qed.

(* --flow=new: one number, recorded nowhere, in no pooled task's flows *)
Lemma resolve_new_fresh st pool fb st' f :
  resolve st CNew pool fb = (st', Some f) -> Inv st ->
  (forall fl x, In fl pool -> In x fl -> In x (used st)) ->
  exists n, f = [n] /\ ~ In n (used st) /\ (forall fl, In fl pool -> ~ In n fl) /\ Inv st' /\ In n (used st').
Proof.
  unfold resolve. cbn [fstep]. destruct (get_flow st None) as [st1 r] eqn:E. intros H Hi Hp.
  pose proof (get_flow_new _ _ _ E Hi) as G. destruct r as [n| |]; try discriminate.
  cbn in H. injection H as <- <-. destruct G as (G0 & G1 & G2 & G3).
  exists n. split; [reflexivity|]. split; [exact G0|]. split; [intros fl Hfl Hn; apply G0; eauto|].
  split; [exact G1|exact G3].
Qed.
